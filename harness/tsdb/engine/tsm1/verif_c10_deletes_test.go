//go:build verif

package tsm1

// C10 - deletes remove exactly the targeted data, permanently. DESIGN.md section 4, C10.

import (
	"context"
	"fmt"
	"os"
	"strings"
	"testing"

	"github.com/influxdata/influxdb/models"
	"github.com/influxdata/influxdb/pkg/verifhook"
	"github.com/influxdata/influxdb/tsdb"
	"github.com/influxdata/influxql"
	"pgregory.net/rapid"
	"verifkit"
)

// vC10Listings compares what the shards list (measurements, exact series keys, tag values) with the model.
func vC10Listings(b *vBed) (sig, msg string) {
	// measurements (database level)
	wantM := map[string]bool{}
	wantSeries := map[string]bool{}
	for k := range b.model {
		name, _ := models.ParseKey([]byte(k.Series))
		wantM[name] = true
		wantSeries[k.Series] = true
	}
	names, err := b.store.MeasurementNames(context.Background(), nil, vDB, "", nil)
	if err != nil {
		return "listing-error", fmt.Sprintf("MeasurementNames: %v", err)
	}
	gotM := map[string]bool{}
	for _, n := range names {
		gotM[string(n)] = true
	}
	for m := range wantM {
		if !gotM[m] {
			return "measurement-with-points-not-listed", fmt.Sprintf("measurement %q has model points but is not listed (listed %v)", m, vKeys(gotM))
		}
	}
	lingerM := map[string]bool{}
	for s := range b.lingerOK {
		n, _ := models.ParseKey([]byte(s))
		lingerM[n] = true
	}
	for m := range gotM {
		if !wantM[m] && !lingerM[m] {
			return "emptied-measurement-still-listed", fmt.Sprintf("measurement %q has no points left but is still listed", m)
		}
	}
	// exact series keys, union over shards
	gotSeries := map[string]bool{}
	for _, id := range b.shards {
		sh := b.store.Shard(id)
		if sh == nil {
			return "listing-error", fmt.Sprintf("shard %d missing", id)
		}
		ix, err := sh.Index()
		if err != nil {
			return "listing-error", err.Error()
		}
		sf, err := sh.SeriesFile()
		if err != nil {
			return "listing-error", err.Error()
		}
		is := tsdb.IndexSet{Indexes: []tsdb.Index{ix}, SeriesFile: sf}
		perShard := map[string]bool{}
		for _, m := range b.measurements {
			keys, err := is.MeasurementSeriesKeysByExpr([]byte(m), nil)
			if err != nil {
				return "listing-error", fmt.Sprintf("MeasurementSeriesKeysByExpr(%s): %v", m, err)
			}
			for _, k := range keys {
				gotSeries[string(k)] = true
				perShard[string(k)] = true
			}
		}
		if b.idx == "tsi1" {
			// tsi1 indexes are per shard: the listing must be exact per shard
			want := map[string]bool{}
			for _, s := range b.modelSeries(id) {
				want[s] = true
			}
			for s := range want {
				if !perShard[s] {
					return "series-with-points-not-listed", fmt.Sprintf("shard %d: series %q has points but is not listed", id, s)
				}
			}
			for s := range perShard {
				if !want[s] && !b.lingerOK[s] {
					return "emptied-series-still-listed", fmt.Sprintf("shard %d: series %q has no points left but is still listed", id, s)
				}
			}
		}
	}
	for s := range wantSeries {
		if !gotSeries[s] {
			return "series-with-points-not-listed", fmt.Sprintf("series %q has points but is not listed", s)
		}
	}
	for s := range gotSeries {
		if !wantSeries[s] && !b.lingerOK[s] {
			return "emptied-series-still-listed", fmt.Sprintf("series %q has no points left but is still listed", s)
		}
	}
	// tag values of key host per measurement (inmem only here; the tsi1 tag-value listing is C14's subject)
	if b.idx == "inmem" {
		cond := influxql.MustParseExpr(`_tagKey = 'host'`)
		tvs, err := b.store.TagValues(context.Background(), nil, b.shards, cond)
		if err != nil {
			return "listing-error", fmt.Sprintf("TagValues: %v", err)
		}
		got := map[string]bool{}
		for _, tv := range tvs {
			for _, kv := range tv.Values {
				got[tv.Measurement+" "+kv.Key+"="+kv.Value] = true
			}
		}
		want := map[string]bool{}
		for s := range wantSeries {
			name, tags := models.ParseKey([]byte(s))
			want[name+" host="+tags.GetString("host")] = true
		}
		for k := range want {
			if !got[k] {
				return "tagvalue-with-points-not-listed", fmt.Sprintf("tag value %q not listed (listed %v)", k, vKeys(got))
			}
		}
		for s := range b.lingerOK {
			name, tags := models.ParseKey([]byte(s))
			want[name+" host="+tags.GetString("host")] = true
			got[name+" host="+tags.GetString("host")] = true
		}
		for k := range got {
			if !want[k] {
				return "emptied-tagvalue-still-listed", fmt.Sprintf("tag value %q still listed although no series with points carries it", k)
			}
		}
	}
	return "", ""
}

func vC10Check(rt *rapid.T, b *vBed, where string) {
	got, err := b.readAll()
	if err != nil {
		rt.Fatalf("%s %s: %v", verifkit.Sig("read-error"), where, err)
	}
	if kind, msg := b.diffModel(got); kind != "" {
		sig := "read-" + kind
		if kind == "unexpected" {
			sig = "deleted-or-unwritten-point-returned"
		} else if kind == "missing" {
			sig = "untargeted-point-missing"
		}
		rt.Fatalf("%s %s: %s", verifkit.Sig(sig), where, msg)
	}
	if sig, msg := vC10Listings(b); sig != "" {
		rt.Fatalf("%s %s: %s", verifkit.Sig(sig), where, msg)
	}
}

func TestVerifC10Deletes(t *testing.T) {
	stats := verifkit.For("C10", "TestVerifC10Deletes",
		"rapid state machine on bed E (1-2 shards, inmem or tsi1): writes over 3 measurements x tag sets, range deletes with every selection kind (series, tag predicate, regex, measurement, database) and range kind (closed, open-ended, instant, empty, all), series drops, measurement drops, then snapshots / every compaction kind / reopen / writes after the delete in any order; after EVERY action the full content and the measurement/series/tag-value listings must equal the model. non-trivial = an effective delete followed by >=2 later steps of different kinds; distinct = hash of action-kind sequence")
	defer stats.Flush()
	rapid.Check(t, func(rt *rapid.T) {
		root, err := os.MkdirTemp("", "c10")
		if err != nil {
			rt.Fatal(err)
		}
		defer os.RemoveAll(root)
		idx := rapid.SampledFrom([]string{"inmem", "tsi1"}).Draw(rt, "index")
		nsh := rapid.IntRange(1, 2).Draw(rt, "nshards")
		b, err := vNewBed(root, idx, nsh)
		if err != nil {
			rt.Fatalf("open: %v", err)
		}
		defer b.close()
		defer verifhook.Set(nil)
		b.onExclude = stats.Exclude
		cls := map[string]bool{"index:" + idx: true}
		var canon strings.Builder
		var sample []string
		laterKinds := map[string]bool{}
		deleted := false
		note := func(kind, detail string) {
			canon.WriteString(kind + ";")
			if len(sample) < 60 {
				sample = append(sample, kind+" "+detail)
			}
			if deleted && kind != "delete" && kind != "dropMeasurement" {
				laterKinds[kind] = true
			}
		}
		doDelete := func(rt *rapid.T, sel vSel) int {
			var derr error
			if !verifkit.Watch(vOpTimeout, func() { derr = b.deleteSeries(sel) }) {
				rt.Fatalf("%s DeleteSeries(%v) did not return", verifkit.Sig("delete-hang"), sel)
			}
			if derr != nil {
				rt.Fatalf("%s DeleteSeries(%v): %v", verifkit.Sig("delete-error"), sel, derr)
			}
			n := b.applyDelete(sel)
			if n > 0 {
				deleted = true
				laterKinds = map[string]bool{}
				cls["delete:effective"] = true
				if sel.TagK == "" && sel.M == "" {
					cls["delete:sel-database"] = true
				} else if sel.Regex {
					cls["delete:sel-regex"] = true
				} else if sel.TagK != "" {
					cls["delete:sel-tag"] = true
				} else {
					cls["delete:sel-measurement"] = true
				}
				switch {
				case !sel.HasMin && !sel.HasMax:
					cls["delete:range-all"] = true
				case sel.HasMin && sel.HasMax && sel.Min == sel.Max:
					cls["delete:range-instant"] = true
				case sel.HasMin && sel.HasMax:
					cls["delete:range-closed"] = true
				default:
					cls["delete:range-open"] = true
				}
			}
			return n
		}
		steps := 0
		var lastSel vSel
		haveLast := false
		rt.Repeat(map[string]func(*rapid.T){
			"write": func(rt *rapid.T) {
				shard := rapid.SampledFrom(b.shards).Draw(rt, "shard")
				pts := b.vDrawBatch(rt, shard, 30)
				if err := b.write(shard, pts); err != nil {
					rt.Fatalf("%s well-typed write failed: %v", verifkit.Sig("write-rejected"), err)
				}
				b.applyWrite(shard, pts)
				if deleted {
					cls["later:write-after-delete"] = true
				}
				note("write", fmt.Sprint(len(pts)))
			},
			"bigwrite": func(rt *rapid.T) {
				if rapid.IntRange(0, 1).Draw(rt, "rare") != 0 {
					rt.Skip("rare")
				}
				shard := rapid.SampledFrom(b.shards).Draw(rt, "shard")
				pts := b.vDrawBigSeries(rt, shard)
				if err := b.write(shard, pts); err != nil {
					rt.Fatalf("%s well-typed write failed: %v", verifkit.Sig("write-rejected"), err)
				}
				b.applyWrite(shard, pts)
				cls["op:bigwrite"] = true
				note("bigwrite", fmt.Sprint(len(pts)))
			},
			"delete": func(rt *rapid.T) {
				sel := b.vDrawSel(rt)
				// the same time range as the previous delete with another selection: tombstones of equal ranges are
				// batched when a file's tombstones are replayed at open
				if haveLast && rapid.IntRange(0, 2).Draw(rt, "sameRangeAsPreviousDelete") == 0 {
					sel.HasMin, sel.HasMax, sel.Min, sel.Max = lastSel.HasMin, lastSel.HasMax, lastSel.Min, lastSel.Max
					cls["delete:same-range-as-previous"] = true
				}
				lastSel, haveLast = sel, true
				n := doDelete(rt, sel)
				note("delete", fmt.Sprintf("%v removed=%d", sel, n))
			},
			"dropSeries": func(rt *rapid.T) {
				// DROP SERIES = a delete without time bounds
				sel := b.vDrawSel(rt)
				sel.HasMin, sel.HasMax = false, false
				n := doDelete(rt, sel)
				if n > 0 {
					cls["delete:drop-series"] = true
				}
				note("delete", fmt.Sprintf("drop %v removed=%d", sel, n))
			},
			"dropMeasurement": func(rt *rapid.T) {
				m := rapid.SampledFrom(b.measurements).Draw(rt, "m")
				var derr error
				if !verifkit.Watch(vOpTimeout, func() { derr = b.dropMeasurement(m) }) {
					rt.Fatalf("%s DeleteMeasurement(%s) did not return", verifkit.Sig("delete-hang"), m)
				}
				if derr != nil {
					rt.Fatalf("%s DeleteMeasurement(%s): %v", verifkit.Sig("delete-error"), m, derr)
				}
				before := len(b.model)
				b.applyDropMeasurement(m)
				if len(b.model) < before {
					deleted = true
					laterKinds = map[string]bool{}
					cls["delete:drop-measurement"] = true
				}
				note("dropMeasurement", m)
			},
			"snapshot": func(rt *rapid.T) {
				shard := rapid.SampledFrom(b.shards).Draw(rt, "shard")
				if err := b.snapshot(shard); err != nil {
					rt.Fatalf("%s snapshot: %v", verifkit.Sig("snapshot-error"), err)
				}
				note("snapshot", "")
			},
			"compact": func(rt *rapid.T) {
				shard := rapid.SampledFrom(b.shards).Draw(rt, "shard")
				kind := rapid.SampledFrom(vCompactKinds).Draw(rt, "kind")
				n, err := b.compact(shard, kind)
				if err != nil {
					rt.Fatalf("compact: %v", err)
				}
				if n > 0 {
					note("compact-"+kind, "")
					if deleted {
						cls["later:compact-"+kind] = true
					}
				} else {
					note("compact-noop", kind)
				}
			},
			"reopen": func(rt *rapid.T) {
				if err := b.reopen(); err != nil {
					rt.Fatalf("%s reopen: %v", verifkit.Sig("reopen-error"), err)
				}
				if deleted {
					cls["later:reopen"] = true
				}
				note("reopen", "")
			},
			"": func(rt *rapid.T) {
				steps++
				vC10Check(rt, b, fmt.Sprintf("after step %d", steps))
			},
		})
		nontrivial := deleted && len(laterKinds) >= 2
		var cl []string
		for k := range cls {
			cl = append(cl, k)
		}
		stats.Case(nontrivial, canon.String(), cl...)
		if stats.WantSample() {
			stats.Sample(map[string]interface{}{"index": idx, "shards": nsh, "actions": sample, "model_points": len(b.model)})
		} else {
			stats.Sample(nil)
		}
	})
}
