//go:build verif

package tsm1

// C09 bed T: TSM files built block by block, tombstones through TSMReader.DeleteRange, the
// Compactor called directly, FileStore.Replace. This file holds the generator, the reference
// fold and the readers; the properties are in verif_c09_compaction_test.go.
// DESIGN.md section 4, C09.

import (
	"bufio"
	"bytes"
	"context"
	"crypto/sha256"
	"fmt"
	"math"
	"os"
	"path/filepath"
	"sort"
	"strings"
	"sync"
	"time"

	"github.com/influxdata/influxdb/models"
	"github.com/influxdata/influxdb/tsdb"
	"pgregory.net/rapid"
)

// vC09Content is the logical content of a file set: key -> timestamp -> value.
type vC09Content map[string]map[int64]interface{}

type vC09Blk struct{ ts []int64 }

func (b vC09Blk) min() int64 { return b.ts[0] }
func (b vC09Blk) max() int64 { return b.ts[len(b.ts)-1] }

type vC09Tomb struct {
	kind     string
	keys     []int // indexes into the case's key list
	min, max int64
	late     bool // applied through the open FileStore's reader instead of before Open
}

type vC09File struct {
	gen, seq int
	ord      int         // position in (gen,seq) order
	blocks   [][]vC09Blk // per key index; sorted, non-overlapping
	tombs    []vC09Tomb
	path     string
}

type vC09Case struct {
	keys  []string // sorted
	types []byte   // 'f','i','u','b','s'
	base  int64
	files []*vC09File // sorted by (gen,seq)
	order []int       // creation order on disk
	// forceSize != 0: the scenario needs this points-per-block setting (block-count limit case)
	forceSize int
	// emptiedKey: one key is removed completely by several disjoint range tombstones in every file holding it
	emptiedKey bool
}

var vC09Types = []byte{'f', 'i', 'u', 'b', 's'}

func vC09Value(typ byte, ord int, ts int64) Value {
	r := ts % 1000
	if r < 0 {
		r = -r
	}
	switch typ {
	case 'f':
		return NewFloatValue(ts, float64(ord+1)*1000.25+float64(r))
	case 'i':
		x := int64(ord+1)*1000000 + r
		if ord%2 == 1 {
			x = -x
		}
		return NewIntegerValue(ts, x)
	case 'u':
		return NewUnsignedValue(ts, uint64(ord+1)<<40+uint64(r))
	case 'b':
		return NewBooleanValue(ts, ord%2 == 0)
	default:
		return NewStringValue(ts, fmt.Sprintf("f%d:%d", ord, r))
	}
}

// vC09DrawLayout draws the blocks of one key in one file (relative timestamps >= 0).
func vC09DrawLayout(rt *rapid.T, big bool, budget *int) []vC09Blk {
	nb := rapid.SampledFrom([]int{0, 1, 1, 2, 2, 3, 4, 6}).Draw(rt, "nblocks")
	var cur int64
	if big {
		cur = rapid.SampledFrom([]int64{0, 1, 500, 999, 1000, 1001, 1998, 2000}).Draw(rt, "bigStart")
	} else {
		cur = rapid.Int64Range(0, 40).Draw(rt, "start")
	}
	var out []vC09Blk
	for b := 0; b < nb; b++ {
		var cnt int
		if big && *budget > 0 {
			cnt = rapid.SampledFrom([]int{1, 2, 999, 1000, 1000, 7}).Draw(rt, "bigCount")
		} else {
			cnt = rapid.SampledFrom([]int{1, 1, 2, 3, 5, 10, 0}).Draw(rt, "count")
			if cnt == 0 {
				cnt = rapid.IntRange(1, 30).Draw(rt, "countN")
			}
		}
		ts := make([]int64, cnt)
		if cnt <= 10 && rapid.Bool().Draw(rt, "irregular") {
			for i := range ts {
				if i > 0 {
					cur += rapid.Int64Range(1, 4).Draw(rt, "dt")
				}
				ts[i] = cur
			}
		} else {
			step := rapid.SampledFrom([]int64{1, 1, 2, 3}).Draw(rt, "step")
			for i := range ts {
				ts[i] = cur + int64(i)*step
			}
		}
		out = append(out, vC09Blk{ts})
		*budget -= cnt
		cur = ts[cnt-1] + rapid.SampledFrom([]int64{1, 1, 2, 5, 17}).Draw(rt, "gap")
	}
	return out
}

// vC09Derive builds a layout related to prev: identical ranges, shifted, nested inside, or the
// same points cut at other block boundaries.
func vC09Derive(rt *rapid.T, prev []vC09Blk, rel string) []vC09Blk {
	var out []vC09Blk
	switch rel {
	case "identical":
		for _, b := range prev {
			out = append(out, vC09Blk{append([]int64(nil), b.ts...)})
		}
	case "shifted":
		d := rapid.SampledFrom([]int64{1, 2, 7, 500}).Draw(rt, "shift")
		for _, b := range prev {
			ts := make([]int64, len(b.ts))
			for i, t := range b.ts {
				ts[i] = t + d
			}
			out = append(out, vC09Blk{ts})
		}
	case "nested":
		thin := rapid.Bool().Draw(rt, "thin")
		for _, b := range prev {
			if len(b.ts) < 3 {
				continue
			}
			var ts []int64
			for i := 1; i < len(b.ts)-1; i++ {
				if thin && i%2 == 0 {
					continue
				}
				ts = append(ts, b.ts[i])
			}
			if len(ts) > 0 {
				out = append(out, vC09Blk{ts})
			}
		}
	case "recut":
		var all []int64
		for _, b := range prev {
			all = append(all, b.ts...)
		}
		c := rapid.SampledFrom([]int{1, 2, 5, 999, 1000}).Draw(rt, "recut")
		for len(all) > 0 {
			n := c
			if n > len(all) {
				n = len(all)
			}
			out = append(out, vC09Blk{append([]int64(nil), all[:n]...)})
			all = all[n:]
			if len(out) >= 8 { // keep the block count per key and file small
				if len(all) > 1000 {
					all = all[:1000]
				}
				c = 1000
			}
		}
	}
	return out
}

// vC09DrawCase draws the whole input: keys, files, blocks, tombstones.
func vC09DrawCase(rt *rapid.T, maxFiles int, blockLimit bool) *vC09Case {
	c := &vC09Case{}
	// blockLimit scenario (TestVerifC09BlockLimit): one key with more points than one file may
	// hold blocks of (65535) when re-chunked at one point per block, so the compactor must roll
	// over to a second file
	nkeys := rapid.SampledFrom([]int{1, 1, 2, 2, 3, 3, 4, 6, 12}).Draw(rt, "nkeys")
	if blockLimit && nkeys > 2 {
		nkeys = 2
	}
	longKey := rapid.IntRange(0, 19).Draw(rt, "longKey") == 0
	for i := 0; i < nkeys; i++ {
		k := fmt.Sprintf("m%02d,host=h%d#!~#v", i/2, i%2)
		if longKey && i == nkeys-1 {
			n := rapid.SampledFrom([]int{65535, 65534, 60000}).Draw(rt, "longKeyLen")
			pre := fmt.Sprintf("m%02d,host=", i/2)
			k = pre + strings.Repeat("x", n-len(pre)-len("#!~#v")) + "#!~#v"
		}
		c.keys = append(c.keys, k)
	}
	sort.Strings(c.keys)
	for range c.keys {
		c.types = append(c.types, rapid.SampledFrom(vC09Types).Draw(rt, "type"))
	}
	nfiles := rapid.SampledFrom([]int{1, 2, 2, 2, 3, 3, 3, 4, 4, 5, 6, 8}).Draw(rt, "nfiles")
	if nfiles > maxFiles {
		nfiles = maxFiles
	}
	if blockLimit {
		nfiles = 1
	}
	big := rapid.IntRange(0, 4).Draw(rt, "big") == 0
	budget := 12000
	gen := rapid.IntRange(1, 3).Draw(rt, "gen0")
	last := make([][]vC09Blk, nkeys) // latest earlier layout per key
	var logical []*vC09File
	for f := 0; f < nfiles; f++ {
		// Files of one generation are the consecutive pieces of ONE compaction output (the
		// compactor starts a new sequence number when a file or a key's index is full), so they
		// continue each other in key and time order and never overlap. A generation is therefore
		// drawn as one logical file and then cut into 1-3 sequence numbers.
		if f > 0 {
			gen += rapid.SampledFrom([]int{1, 1, 1, 2, 3}).Draw(rt, "dgen")
		}
		seq := rapid.SampledFrom([]int{1, 1, 1, 2, 4}).Draw(rt, "seq")
		lf := &vC09File{gen: gen, seq: seq, blocks: make([][]vC09Blk, nkeys)}
		any := false
		for k := 0; k < nkeys; k++ {
			rel := "fresh"
			if last[k] != nil {
				rel = rapid.SampledFrom([]string{"fresh", "fresh", "fresh", "identical", "shifted", "nested", "recut"}).Draw(rt, "rel")
			}
			var lay []vC09Blk
			if rel == "fresh" {
				lay = vC09DrawLayout(rt, big, &budget)
			} else {
				lay = vC09Derive(rt, last[k], rel)
				for _, b := range lay {
					budget -= len(b.ts)
				}
			}
			lf.blocks[k] = lay
			if len(lay) > 0 {
				last[k] = lay
				any = true
			}
		}
		if !any { // a TSM file cannot be empty
			lf.blocks[0] = []vC09Blk{{ts: []int64{rapid.Int64Range(0, 40).Draw(rt, "only")}}}
			last[0] = lf.blocks[0]
		}
		if blockLimit {
			nb := 66 + rapid.IntRange(0, 2).Draw(rt, "limitBlocks")
			lf.blocks[0] = nil
			for b := 0; b < nb; b++ {
				ts := make([]int64, 1000)
				for i := range ts {
					ts[i] = int64(b*1000 + i)
				}
				lf.blocks[0] = append(lf.blocks[0], vC09Blk{ts})
			}
			last[0] = lf.blocks[0]
			c.forceSize = 1
		}
		logical = append(logical, lf)
	}
	nfiles = 0
	for _, lf := range logical {
		type kb struct{ k, b int }
		var lin []kb
		for k, lay := range lf.blocks {
			for b := range lay {
				lin = append(lin, kb{k, b})
			}
		}
		pieces := 1
		if len(lin) > 1 && rapid.IntRange(0, 3).Draw(rt, "splitGen") == 0 {
			pieces = rapid.IntRange(2, 3).Draw(rt, "pieces")
			if pieces > len(lin) {
				pieces = len(lin)
			}
		}
		cuts := []int{0}
		for p := 1; p < pieces; p++ {
			lo := cuts[len(cuts)-1] + 1
			hi := len(lin) - (pieces - p)
			cuts = append(cuts, rapid.IntRange(lo, hi).Draw(rt, "cut"))
		}
		cuts = append(cuts, len(lin))
		for p := 0; p < pieces; p++ {
			fl := &vC09File{gen: lf.gen, seq: lf.seq + p, ord: nfiles, blocks: make([][]vC09Blk, nkeys)}
			for _, x := range lin[cuts[p]:cuts[p+1]] {
				fl.blocks[x.k] = append(fl.blocks[x.k], lf.blocks[x.k][x.b])
			}
			nfiles++
			c.files = append(c.files, fl)
		}
	}
	for _, fl := range c.files {
		// tombstones of this file
		nt := rapid.SampledFrom([]int{0, 0, 0, 1, 1, 2, 3}).Draw(rt, "ntomb")
		for i := 0; i < nt; i++ {
			var present []int
			for k := range fl.blocks {
				if len(fl.blocks[k]) > 0 {
					present = append(present, k)
				}
			}
			k := rapid.SampledFrom(present).Draw(rt, "tombKey")
			blks := fl.blocks[k]
			b := blks[rapid.IntRange(0, len(blks)-1).Draw(rt, "tombBlk")]
			tb := vC09Tomb{kind: rapid.SampledFrom([]string{"wholekey", "keyrange", "wholeblock", "partial", "partial", "nothing", "random"}).Draw(rt, "tombKind"),
				keys: []int{k}, late: rapid.Bool().Draw(rt, "late")}
			switch tb.kind {
			case "wholekey":
				tb.min, tb.max = math.MinInt64, math.MaxInt64
			case "keyrange":
				tb.min, tb.max = blks[0].min(), blks[len(blks)-1].max()
			case "wholeblock":
				tb.min, tb.max = b.min(), b.max()
			case "partial":
				i := rapid.IntRange(0, len(b.ts)-1).Draw(rt, "pi")
				j := rapid.IntRange(i, len(b.ts)-1).Draw(rt, "pj")
				tb.min, tb.max = b.ts[i], b.ts[j]
				if rapid.Bool().Draw(rt, "widen") {
					tb.max += rapid.Int64Range(0, 20).Draw(rt, "widenBy")
				}
			case "nothing":
				tb.min = b.max() + 1
				tb.max = tb.min
				if len(b.ts) > 1 && b.ts[1]-b.ts[0] > 1 && rapid.Bool().Draw(rt, "inGap") {
					tb.min, tb.max = b.ts[0]+1, b.ts[1]-1
				}
			default:
				tb.min = rapid.Int64Range(0, 60).Draw(rt, "ta")
				tb.max = rapid.Int64Range(tb.min, 2200).Draw(rt, "tb")
			}
			if rapid.IntRange(0, 3).Draw(rt, "allKeys") == 0 {
				tb.keys = nil
				for k := range c.keys { // includes keys that the file does not hold
					tb.keys = append(tb.keys, k)
				}
			}
			fl.tombs = append(fl.tombs, tb)
		}
		if blockLimit && len(fl.blocks[0]) > 0 {
			// any tombstone on the key makes the compactor decode and re-chunk all its blocks
			t := fl.blocks[0][0].ts[rapid.IntRange(0, 999).Draw(rt, "limitTomb")]
			fl.tombs = append(fl.tombs, vC09Tomb{kind: "partial", keys: []int{0}, min: t, max: t, late: rapid.Bool().Draw(rt, "limitTombLate")})
		}
	}
	// a key whose every point is removed by several disjoint range tombstones (never by one whole-key tombstone),
	// in every file that holds it: the merged key is empty and the keys sorting after it must still be written
	if rapid.IntRange(0, 5).Draw(rt, "emptyKeyPiecewise") == 0 {
		k := rapid.IntRange(0, len(c.keys)-1).Draw(rt, "emptyKey")
		for _, fl := range c.files {
			var all []int64
			for _, b := range fl.blocks[k] {
				all = append(all, b.ts...)
			}
			if len(all) == 0 {
				continue
			}
			sort.Slice(all, func(i, j int) bool { return all[i] < all[j] })
			late := rapid.Bool().Draw(rt, "emptyKeyLate")
			if len(all) == 1 {
				fl.tombs = append(fl.tombs, vC09Tomb{kind: "piecewise", keys: []int{k}, min: all[0], max: all[0], late: late})
				continue
			}
			j := rapid.IntRange(1, len(all)-1).Draw(rt, "emptyKeySplit")
			for j < len(all)-1 && all[j] == all[j-1] {
				j++
			}
			fl.tombs = append(fl.tombs,
				vC09Tomb{kind: "piecewise", keys: []int{k}, min: all[0], max: all[j-1], late: late},
				vC09Tomb{kind: "piecewise", keys: []int{k}, min: all[j], max: all[len(all)-1], late: late})
		}
		c.emptiedKey = true
	}
	// absolute time base: mostly 0, sometimes at the ends of the valid timestamp range
	var maxRel int64
	for _, fl := range c.files {
		for _, lay := range fl.blocks {
			for _, b := range lay {
				if b.max() > maxRel {
					maxRel = b.max()
				}
			}
		}
		for _, tb := range fl.tombs {
			if tb.max != math.MaxInt64 && tb.max > maxRel {
				maxRel = tb.max
			}
		}
	}
	switch rapid.SampledFrom([]string{"0", "0", "0", "0", "0", "0", "0", "0", "min", "max"}).Draw(rt, "base") {
	case "min":
		c.base = models.MinNanoTime
	case "max":
		c.base = models.MaxNanoTime - maxRel
	}
	if c.base != 0 {
		for _, fl := range c.files {
			for _, lay := range fl.blocks {
				for _, b := range lay {
					for i := range b.ts {
						b.ts[i] += c.base
					}
				}
			}
			for i := range fl.tombs {
				if fl.tombs[i].kind != "wholekey" {
					fl.tombs[i].min += c.base
					fl.tombs[i].max += c.base
				}
			}
		}
	}
	c.order = rapid.Permutation(vC09Iota(nfiles)).Draw(rt, "creationOrder")
	return c
}

func vC09Iota(n int) []int {
	s := make([]int, n)
	for i := range s {
		s[i] = i
	}
	return s
}

// fileContent is what the harness wrote into one file, minus that file's tombstones.
func (c *vC09Case) fileContent(fl *vC09File) vC09Content {
	out := vC09Content{}
	for k, lay := range fl.blocks {
		if len(lay) == 0 {
			continue
		}
		m := map[int64]interface{}{}
		for _, b := range lay {
			for _, ts := range b.ts {
				m[ts] = vC09Value(c.types[k], fl.ord, ts).Value()
			}
		}
		out[c.keys[k]] = m
	}
	for _, tb := range fl.tombs {
		for _, k := range tb.keys {
			m := out[c.keys[k]]
			for ts := range m {
				if ts >= tb.min && ts <= tb.max {
					delete(m, ts)
				}
			}
		}
	}
	return out
}

// reference folds the files oldest -> newest; the newest value per timestamp wins.
func (c *vC09Case) reference() vC09Content {
	ref := vC09Content{}
	for _, k := range c.keys {
		ref[k] = map[int64]interface{}{}
	}
	for _, fl := range c.files { // already in (gen,seq) order
		for k, m := range c.fileContent(fl) {
			for ts, v := range m {
				ref[k][ts] = v
			}
		}
	}
	return ref
}

// write creates the files on disk in the drawn creation order and applies the early tombstones.
func (c *vC09Case) write(dir string) error {
	for _, fi := range c.order {
		fl := c.files[fi]
		fl.path = filepath.Join(dir, DefaultFormatFileName(fl.gen, fl.seq)+"."+TSMFileExtension)
		fd, err := os.OpenFile(fl.path, os.O_CREATE|os.O_RDWR|os.O_EXCL, 0666)
		if err != nil {
			return err
		}
		// NewTSMWriter with small buffers (it allocates 2 MiB per writer, which dominates the
		// cost of a case); the bytes written are the same
		ibuf := bytes.NewBuffer(make([]byte, 0, 8192))
		var w TSMWriter = &tsmWriter{wrapped: fd, w: bufio.NewWriterSize(fd, 64*1024), index: &directIndex{buf: ibuf, w: bufio.NewWriter(ibuf)}}
		for k, lay := range fl.blocks {
			for _, b := range lay {
				vals := make([]Value, len(b.ts))
				for i, ts := range b.ts {
					vals[i] = vC09Value(c.types[k], fl.ord, ts)
				}
				if err := w.Write([]byte(c.keys[k]), vals); err != nil {
					return fmt.Errorf("write %s: %v", fl.path, err)
				}
			}
		}
		if err := w.WriteIndex(); err != nil {
			return fmt.Errorf("index %s: %v", fl.path, err)
		}
		if err := w.Close(); err != nil {
			return err
		}
	}
	for _, fl := range c.files {
		var early []vC09Tomb
		for _, tb := range fl.tombs {
			if !tb.late {
				early = append(early, tb)
			}
		}
		if len(early) == 0 {
			continue
		}
		fd, err := os.Open(fl.path)
		if err != nil {
			return err
		}
		r, err := NewTSMReader(fd)
		if err != nil {
			return err
		}
		for _, tb := range early {
			if err := r.DeleteRange(c.tombKeys(tb), tb.min, tb.max); err != nil {
				return err
			}
		}
		if err := r.Close(); err != nil {
			return err
		}
	}
	return nil
}

func (c *vC09Case) tombKeys(tb vC09Tomb) [][]byte {
	var ks [][]byte
	for _, k := range tb.keys {
		ks = append(ks, []byte(c.keys[k]))
	}
	return ks
}

// applyLate applies the late tombstones through the readers of the open FileStore, as the
// engine's delete path does.
func (c *vC09Case) applyLate(fs *FileStore) error {
	for _, fl := range c.files {
		for _, tb := range fl.tombs {
			if !tb.late {
				continue
			}
			r := fs.TSMReader(fl.path)
			if r == nil {
				return fmt.Errorf("no reader for %s", fl.path)
			}
			err := r.DeleteRange(c.tombKeys(tb), tb.min, tb.max)
			r.Unref()
			if err != nil {
				return err
			}
		}
	}
	return nil
}

// ---- readers ----

type vC09Named struct {
	gen, seq int
	r        *TSMReader
}

func vC09SortedReaders(fs *FileStore) ([]vC09Named, error) {
	var out []vC09Named
	for _, f := range fs.Files() {
		g, s, err := DefaultParseFileName(f.Path())
		if err != nil {
			return nil, err
		}
		out = append(out, vC09Named{g, s, f.(*TSMReader)})
	}
	sort.Slice(out, func(i, j int) bool {
		if out[i].gen != out[j].gen {
			return out[i].gen < out[j].gen
		}
		return out[i].seq < out[j].seq
	})
	return out, nil
}

// vC09ReadFold reads every key from every file with TSMReader.ReadAll and folds the files in
// name order, newest wins. skip lists keys that must not be read (a corrupted block).
func vC09ReadFold(fs *FileStore, keys []string, skip map[string]bool) (vC09Content, error) {
	rs, err := vC09SortedReaders(fs)
	if err != nil {
		return nil, err
	}
	out := vC09Content{}
	for _, k := range keys {
		if skip[k] {
			continue
		}
		m := map[int64]interface{}{}
		for _, nr := range rs {
			vals, err := nr.r.ReadAll([]byte(k))
			if err != nil {
				return nil, fmt.Errorf("ReadAll(%s, %.40s): %v", filepath.Base(nr.r.Path()), k, err)
			}
			for _, v := range vals {
				m[v.UnixNano()] = v.Value()
			}
		}
		out[k] = m
	}
	return out, nil
}

// vC09ReadCursor reads one key through FileStore.KeyCursor the way the engine's cursors do.
func vC09ReadCursor(fs *FileStore, key string, typ byte, asc bool) (ts []int64, vs []interface{}, err error) {
	// the engine seeks to the start (end) of the query's time range, which is never outside
	// [models.MinNanoTime, models.MaxNanoTime]
	seek := int64(models.MinNanoTime)
	if !asc {
		seek = models.MaxNanoTime
	}
	kc := fs.KeyCursor(context.Background(), []byte(key), seek, asc)
	defer kc.Close()
	for rounds := 0; ; rounds++ {
		if rounds > 200000 {
			return nil, nil, fmt.Errorf("cursor does not terminate")
		}
		n := 0
		switch typ {
		case 'f':
			var buf []FloatValue
			v, e := kc.ReadFloatBlock(&buf)
			err, n = e, len(v)
			for _, x := range v {
				ts, vs = append(ts, x.UnixNano()), append(vs, x.Value())
			}
		case 'i':
			var buf []IntegerValue
			v, e := kc.ReadIntegerBlock(&buf)
			err, n = e, len(v)
			for _, x := range v {
				ts, vs = append(ts, x.UnixNano()), append(vs, x.Value())
			}
		case 'u':
			var buf []UnsignedValue
			v, e := kc.ReadUnsignedBlock(&buf)
			err, n = e, len(v)
			for _, x := range v {
				ts, vs = append(ts, x.UnixNano()), append(vs, x.Value())
			}
		case 'b':
			var buf []BooleanValue
			v, e := kc.ReadBooleanBlock(&buf)
			err, n = e, len(v)
			for _, x := range v {
				ts, vs = append(ts, x.UnixNano()), append(vs, x.Value())
			}
		default:
			var buf []StringValue
			v, e := kc.ReadStringBlock(&buf)
			err, n = e, len(v)
			for _, x := range v {
				ts, vs = append(ts, x.UnixNano()), append(vs, x.Value())
			}
		}
		if err != nil {
			return nil, nil, err
		}
		if n == 0 {
			return ts, vs, nil
		}
		kc.Next()
	}
}

// vC09MaxMergeBlocks: sort.Stable is a plain insertion sort up to 20 elements, which never
// swaps two overlapping blocks; beyond that the non-transitive blocks.Less can put an older
// block after a newer overlapping one (known finding compaction-misorders-more-than-20-blocks-
// of-a-key, TestVerifC09KFMergeOrder). When no two blocks of the key overlap the order is a
// strict total order by time and any number of blocks is fine.
const vC09MaxMergeBlocks = 20

// vC09MaxCursorLocations: the same for sort.Sort (insertion sort up to 12 elements) with
// ascLocations/descLocations in the KeyCursor (TestVerifC09KFKeyCursorOrder).
const vC09MaxCursorLocations = 12

type vC09KeyBlocks struct {
	n       int
	overlap bool // two blocks (necessarily of different files) overlap in time
}

// vC09GroupBlocks counts the index entries per key over the given files (nil = all files of the
// store) and reports whether any two of them overlap.
func vC09GroupBlocks(fs *FileStore, paths []string, keys []string) (map[string]vC09KeyBlocks, error) {
	if paths == nil {
		rs, err := vC09SortedReaders(fs)
		if err != nil {
			return nil, err
		}
		for _, nr := range rs {
			paths = append(paths, nr.r.Path())
		}
	}
	all := map[string][]IndexEntry{}
	var es []IndexEntry
	for _, p := range paths {
		r := fs.TSMReader(p)
		if r == nil {
			return nil, fmt.Errorf("no reader for %s", p)
		}
		for _, k := range keys {
			es = r.ReadEntries([]byte(k), &es)
			all[k] = append(all[k], es...)
		}
		r.Unref()
	}
	out := map[string]vC09KeyBlocks{}
	for k, l := range all {
		sort.Slice(l, func(i, j int) bool { return l[i].MinTime < l[j].MinTime })
		kb := vC09KeyBlocks{n: len(l)}
		for i := 1; i < len(l); i++ {
			if l[i].MinTime <= l[i-1].MaxTime { // sorted by min and disjoint so far: previous max is the running max
				kb.overlap = true
				break
			}
		}
		out[k] = kb
	}
	return out, nil
}

// vC09CursorContent reads all keys through the key cursor; a timestamp returned twice is an error.
func vC09CursorContent(fs *FileStore, keys []string, types []byte, asc bool, skip map[string]bool) (vC09Content, error) {
	out := vC09Content{}
	for i, k := range keys {
		if skip[k] {
			continue
		}
		ts, vs, err := vC09ReadCursor(fs, k, types[i], asc)
		if err != nil {
			return nil, fmt.Errorf("cursor(%.40s): %v", k, err)
		}
		m := map[int64]interface{}{}
		for j := range ts {
			if _, dup := m[ts[j]]; dup {
				return nil, fmt.Errorf("cursor(%.40s asc=%v) returned timestamp %d twice", k, asc, ts[j])
			}
			m[ts[j]] = vs[j]
		}
		out[k] = m
	}
	return out, nil
}

// vC09Diff returns "" or a description of the first difference between two contents.
func vC09Diff(want, got vC09Content, skip map[string]bool) string {
	var keys []string
	for k := range want {
		keys = append(keys, k)
	}
	for k := range got {
		if _, ok := want[k]; !ok {
			keys = append(keys, k)
		}
	}
	sort.Strings(keys)
	for _, k := range keys {
		if skip[k] {
			continue
		}
		w, g := want[k], got[k]
		var tss []int64
		for ts := range w {
			tss = append(tss, ts)
		}
		for ts := range g {
			if _, ok := w[ts]; !ok {
				tss = append(tss, ts)
			}
		}
		sort.Slice(tss, func(i, j int) bool { return tss[i] < tss[j] })
		for _, ts := range tss {
			wv, wok := w[ts]
			gv, gok := g[ts]
			if wok != gok || wv != gv {
				return fmt.Sprintf("key %.60s (len %d) t=%d: want %v (present=%v) got %v (present=%v); want %d points, got %d", k, len(k), ts, wv, wok, gv, gok, len(w), len(g))
			}
		}
	}
	return ""
}

var vC09Sweep sync.Once

// vC09TempDir makes the directory of one case: on tmpfs when the machine has one (the code under
// test fsyncs every file and directory it touches, which on a shared disk costs more than the
// compaction itself), otherwise under TMPDIR.
func vC09TempDir() (string, error) {
	if os.Getenv("VERIF_C09_NO_SHM") == "" {
		if fi, err := os.Stat("/dev/shm"); err == nil && fi.IsDir() {
			vC09Sweep.Do(func() {
				// directories of processes that were killed (driver timeout) more than 2 hours ago
				if old, err := filepath.Glob("/dev/shm/verif-c09-*"); err == nil {
					for _, d := range old {
						if st, err := os.Stat(d); err == nil && time.Since(st.ModTime()) > 2*time.Hour {
							os.RemoveAll(d)
						}
					}
				}
			})
			if d, err := os.MkdirTemp("/dev/shm", "verif-c09-"); err == nil {
				return d, nil
			}
		}
	}
	return os.MkdirTemp("", "c09")
}

// vC09DirState hashes every file in dir.
func vC09DirState(dir string) (map[string]string, error) {
	ents, err := os.ReadDir(dir)
	if err != nil {
		return nil, err
	}
	out := map[string]string{}
	for _, e := range ents {
		b, err := os.ReadFile(filepath.Join(dir, e.Name()))
		if err != nil {
			return nil, err
		}
		out[e.Name()] = fmt.Sprintf("%d:%x", len(b), sha256.Sum256(b))
	}
	return out, nil
}

func vC09DirDiff(before, after map[string]string) string {
	var d []string
	for n, h := range before {
		if h2, ok := after[n]; !ok {
			d = append(d, "missing "+n)
		} else if h2 != h {
			d = append(d, "changed "+n)
		}
	}
	for n := range after {
		if _, ok := before[n]; !ok {
			d = append(d, "new "+n)
		}
	}
	sort.Strings(d)
	return strings.Join(d, ", ")
}

// vC09MaxBlockPoints returns, per key, the largest number of points in any block of the given files.
func vC09MaxBlockPoints(fs *FileStore, paths []string, skip map[string]bool) (map[string]int, error) {
	out := map[string]int{}
	for _, p := range paths {
		r := fs.TSMReader(p)
		if r == nil {
			return nil, fmt.Errorf("no reader for %s", p)
		}
		var es []IndexEntry
		for i := 0; i < r.KeyCount(); i++ {
			key, _ := r.KeyAt(i)
			if skip[string(key)] {
				continue
			}
			es = r.ReadEntries(key, &es)
			for j := range es {
				_, b, err := r.ReadBytes(&es[j], nil)
				if err != nil {
					r.Unref()
					return nil, err
				}
				n, err := BlockCount(b)
				if err != nil {
					r.Unref()
					return nil, err
				}
				if n > out[string(key)] {
					out[string(key)] = n
				}
			}
		}
		r.Unref()
	}
	return out, nil
}

// vC09Validate checks the output-validity clause on the installed output files: per key the
// blocks are sorted by time and do not overlap (index entries and decoded content), at most
// 65535 blocks per key, no block larger than max(size, largest input block of that key), keys
// strictly ascending, no tombstones attached. Returns (signature, message) or ("","").
func vC09Validate(fs *FileStore, outs []string, size int, inMax map[string]int, skip map[string]bool) (string, string, map[string]int) {
	stats := map[string]int{}
	for _, p := range outs {
		r := fs.TSMReader(p)
		if r == nil {
			return "output-not-installed", fmt.Sprintf("output %s is not in the file store", p), stats
		}
		sig, msg := func() (string, string) {
			defer r.Unref()
			if r.HasTombstones() {
				return "output-has-tombstones", fmt.Sprintf("output %s has tombstones", filepath.Base(p))
			}
			var prevKey []byte
			var es []IndexEntry
			for i := 0; i < r.KeyCount(); i++ {
				key, _ := r.KeyAt(i)
				if prevKey != nil && string(prevKey) >= string(key) {
					return "output-keys-unsorted", fmt.Sprintf("output %s: key %d not above key %d", filepath.Base(p), i, i-1)
				}
				prevKey = append(prevKey[:0], key...)
				es = r.ReadEntries(key, &es)
				if len(es) > maxIndexEntries {
					return "output-too-many-blocks", fmt.Sprintf("output %s key %.40s has %d blocks", filepath.Base(p), key, len(es))
				}
				if len(es) > stats["maxBlocksPerKey"] {
					stats["maxBlocksPerKey"] = len(es)
				}
				if skip[string(key)] {
					continue
				}
				bound := size
				if inMax[string(key)] > bound {
					bound = inMax[string(key)]
				}
				last := int64(math.MinInt64)
				first := true
				for j := range es {
					e := &es[j]
					if e.MinTime > e.MaxTime {
						return "output-entry-min-after-max", fmt.Sprintf("output %s key %.40s entry %d: min %d > max %d", filepath.Base(p), key, j, e.MinTime, e.MaxTime)
					}
					if j > 0 && e.MinTime <= es[j-1].MaxTime {
						return "output-blocks-overlap-or-unsorted", fmt.Sprintf("output %s key %.40s: entry %d [%d,%d] then entry %d [%d,%d]", filepath.Base(p), key, j-1, es[j-1].MinTime, es[j-1].MaxTime, j, e.MinTime, e.MaxTime)
					}
					vals, err := r.ReadAt(e, nil)
					if err != nil {
						return "output-block-unreadable", fmt.Sprintf("output %s key %.40s entry %d: %v", filepath.Base(p), key, j, err)
					}
					if len(vals) == 0 {
						return "output-empty-block", fmt.Sprintf("output %s key %.40s entry %d holds no values", filepath.Base(p), key, j)
					}
					if len(vals) > bound {
						return "output-block-too-large", fmt.Sprintf("output %s key %.40s entry %d holds %d points, limit %d (size %d, largest input block %d)", filepath.Base(p), key, j, len(vals), bound, size, inMax[string(key)])
					}
					if len(vals) > stats["maxPointsPerBlock"] {
						stats["maxPointsPerBlock"] = len(vals)
					}
					for _, v := range vals {
						t := v.UnixNano()
						if t < e.MinTime || t > e.MaxTime {
							return "output-point-outside-entry-range", fmt.Sprintf("output %s key %.40s entry %d [%d,%d] holds t=%d", filepath.Base(p), key, j, e.MinTime, e.MaxTime, t)
						}
						if !first && t <= last {
							return "output-points-unsorted", fmt.Sprintf("output %s key %.40s entry %d: t=%d after t=%d", filepath.Base(p), key, j, t, last)
						}
						first, last = false, t
					}
				}
			}
			return "", ""
		}()
		if sig != "" {
			return sig, msg, stats
		}
	}
	return "", "", stats
}

// vC09Relations classifies how blocks of the same key in different files of the group relate.
func vC09Relations(c *vC09Case, inGroup map[int]bool) map[string]bool {
	out := map[string]bool{}
	for k := range c.keys {
		type rg struct {
			a, b int64
			f    int
		}
		var rs []rg
		for fi, fl := range c.files {
			if !inGroup[fi] {
				continue
			}
			for _, b := range fl.blocks[k] {
				rs = append(rs, rg{b.min(), b.max(), fi})
			}
		}
		if len(rs) > 60 {
			rs = rs[:60]
		}
		for i := range rs {
			for j := i + 1; j < len(rs); j++ {
				x, y := rs[i], rs[j]
				if x.f == y.f {
					continue
				}
				out["shared-key"] = true
				switch {
				case x.a == y.a && x.b == y.b:
					out["identical"] = true
				case x.b+1 == y.a || y.b+1 == x.a:
					out["adjacent"] = true
				case x.b < y.a || y.b < x.a:
					out["disjoint"] = true
				case (x.a <= y.a && y.b <= x.b) || (y.a <= x.a && x.b <= y.b):
					out["nested"] = true
				default:
					out["interleaved"] = true
				}
			}
		}
	}
	return out
}

// vC09PartialTomb reports whether some tombstone of a group file removes some but not all
// points of one of that file's blocks.
func vC09PartialTomb(c *vC09Case, inGroup map[int]bool) bool {
	for fi, fl := range c.files {
		if !inGroup[fi] {
			continue
		}
		for _, tb := range fl.tombs {
			for _, k := range tb.keys {
				for _, b := range fl.blocks[k] {
					in := 0
					for _, ts := range b.ts {
						if ts >= tb.min && ts <= tb.max {
							in++
						}
					}
					if in > 0 && in < len(b.ts) {
						return true
					}
				}
			}
		}
	}
	return false
}

func (c *vC09Case) canon() string {
	var sb strings.Builder
	fmt.Fprintf(&sb, "base%d;", c.base)
	for i, k := range c.keys {
		fmt.Fprintf(&sb, "k%d:%c;", len(k), c.types[i])
	}
	for _, fl := range c.files {
		fmt.Fprintf(&sb, "F%d-%d[", fl.gen, fl.seq)
		for k, lay := range fl.blocks {
			for _, b := range lay {
				fmt.Fprintf(&sb, "%d:%d+%d..%d,", k, len(b.ts), b.min()-c.base, b.max()-c.base)
			}
		}
		for _, tb := range fl.tombs {
			fmt.Fprintf(&sb, "T%v:%d..%d:%v,", tb.keys, tb.min, tb.max, tb.late)
		}
		sb.WriteString("]")
	}
	return sb.String()
}

func (c *vC09Case) describe() []string {
	var out []string
	for i, k := range c.keys {
		kk := k
		if len(kk) > 40 {
			kk = fmt.Sprintf("%s...(len %d)", kk[:30], len(k))
		}
		out = append(out, fmt.Sprintf("key %d %s type %c", i, kk, c.types[i]))
	}
	for _, fl := range c.files {
		var sb strings.Builder
		fmt.Fprintf(&sb, "file %d-%d:", fl.gen, fl.seq)
		for k, lay := range fl.blocks {
			for _, b := range lay {
				fmt.Fprintf(&sb, " k%d[%d..%d n=%d]", k, b.min(), b.max(), len(b.ts))
			}
		}
		for _, tb := range fl.tombs {
			fmt.Fprintf(&sb, " tomb(%s keys=%v %d..%d late=%v)", tb.kind, tb.keys, tb.min, tb.max, tb.late)
		}
		s := sb.String()
		if len(s) > 600 {
			s = s[:600] + "..."
		}
		out = append(out, s)
	}
	return out
}

var _ = tsdb.DefaultMaxPointsPerBlock
