//go:build verif

package tsm1

// C13 - tsm1 block encodings round-trip exactly; torn WAL segments replay their prefix.
// DESIGN.md section 4, C13. This file: sequence generators that aim at every compression scheme
// and every simple8b selector, and the round-trip / differential oracle for one block.

import (
	"fmt"
	"math"
	"math/bits"
	"strings"

	"github.com/influxdata/influxdb/tsdb"
	"pgregory.net/rapid"
)

// ---------------------------------------------------------------- deterministic expansion of a drawn seed

// vC13Rng is splitmix64. Long sequences are expanded from a seed that rapid drew, so a case is
// still a pure function of the rapid draws (short sequences are drawn value by value).
type vC13Rng uint64

func (r *vC13Rng) next() uint64 {
	*r += 0x9E3779B97F4A7C15
	z := uint64(*r)
	z = (z ^ (z >> 30)) * 0xBF58476D1CE4E5B9
	z = (z ^ (z >> 27)) * 0x94D049BB133111EB
	return z ^ (z >> 31)
}

func (r *vC13Rng) intn(n int) int { return int(r.next() % uint64(n)) }

// widthValue returns a value that needs exactly b bits (b=0 -> 0).
func (r *vC13Rng) widthValue(b int) uint64 {
	if b <= 0 {
		return 0
	}
	if b >= 64 {
		return r.next() | 1<<63
	}
	return (r.next() & (1<<uint(b) - 1)) | 1<<uint(b-1)
}

// ---------------------------------------------------------------- lengths

func vC13DrawLen(rt *rapid.T, classes map[string]bool) int {
	// rapid favours small numbers, so the common mid-size lengths get the low indices
	k := rapid.IntRange(0, 99).Draw(rt, "lenKind")
	var n int
	switch {
	case k < 40:
		n = rapid.IntRange(4, 70).Draw(rt, "len")
	case k < 60:
		n = rapid.IntRange(100, 500).Draw(rt, "len")
	case k < 75:
		n = rapid.SampledFrom([]int{1000, 999, 1001}).Draw(rt, "len")
		classes["len:block-boundary"] = true
	case k < 82:
		n = 1
	case k < 89:
		n = 2
	case k < 94:
		n = 3
	default:
		n = rapid.IntRange(1002, 4000).Draw(rt, "len")
		classes["len:2-4-blocks"] = true
	}
	switch {
	case n <= 3:
		classes[fmt.Sprintf("len:%d", n)] = true
	case n <= 70:
		classes["len:4-70"] = true
	case n <= 500:
		classes["len:100-500"] = true
	}
	return n
}

// ---------------------------------------------------------------- delta shapes (timestamps, integers, unsigned)

var vC13Widths = []int{1, 2, 3, 4, 5, 6, 7, 8, 9, 10, 11, 12, 13, 15, 16, 20, 21, 29, 30, 31, 59, 60}

var vC13DeltaShapes = []string{"const", "const-but-last", "const-but-one", "width", "width-mixed", "scaled", "ones-run", "one-big", "boundary", "random", "extremes", "zeros"}

// vC13Deltas returns n-1 unsigned deltas of the drawn shape (interpreted by the caller as
// wrapping differences of timestamps, or zig-zag encoded differences of integers).
func vC13Deltas(rt *rapid.T, n int, shape string, canon *strings.Builder) []uint64 {
	d := make([]uint64, n-1)
	if n <= 1 {
		return d
	}
	rng := vC13Rng(rapid.Uint64().Draw(rt, "seed"))
	fmt.Fprintf(canon, "%s:", shape)
	switch shape {
	case "const", "const-but-last", "const-but-one":
		c := rapid.SampledFrom([]uint64{0, 1, 2, 10, 1000, 1e9, 1e10, 1e12, 1e13, 3e9, 7, 1<<60 - 1, 1 << 60, 1<<60 + 1, 1<<63 - 1, 1 << 63, math.MaxUint64, math.MaxUint64 - 9, 12345678912345}).Draw(rt, "constDelta")
		fmt.Fprintf(canon, "%d", bits.Len64(c))
		for i := range d {
			d[i] = c
		}
		other := c + rapid.SampledFrom([]uint64{1, 10, 1000, 1e9, 1 << 59, math.MaxUint64}).Draw(rt, "constOff")
		if shape == "const-but-last" {
			d[len(d)-1] = other
		} else if shape == "const-but-one" {
			d[rapid.IntRange(0, len(d)-1).Draw(rt, "oddPos")] = other
		}
	case "width":
		b := rapid.SampledFrom(vC13Widths).Draw(rt, "width")
		fmt.Fprintf(canon, "%d", b)
		for i := range d {
			d[i] = rng.widthValue(b)
		}
		// a few smaller ones so that the word does not consist of maximal values only
		for i := 0; i < len(d)/4; i++ {
			d[rng.intn(len(d))] = rng.widthValue(1 + rng.intn(b))
		}
	case "width-mixed":
		for i := range d {
			d[i] = rng.widthValue(vC13Widths[rng.intn(len(vC13Widths))])
		}
		if rapid.Bool().Draw(rt, "runs") { // runs of equal widths so that full words of every selector appear
			i := 0
			for i < len(d) {
				b := vC13Widths[rng.intn(len(vC13Widths))]
				run := 1 + rng.intn(70)
				for j := 0; j < run && i < len(d); j++ {
					d[i] = rng.widthValue(b)
					i++
				}
			}
		}
	case "scaled":
		k := rapid.IntRange(0, 13).Draw(rt, "pow10")
		b := rapid.SampledFrom([]int{1, 2, 4, 8, 16, 20}).Draw(rt, "scaledWidth")
		fmt.Fprintf(canon, "%d/%d", k, b)
		p := uint64(1)
		for i := 0; i < k; i++ {
			p *= 10
		}
		for i := range d {
			d[i] = rng.widthValue(1+rng.intn(b)) * p
		}
	case "ones-run":
		// unit deltas (after scaling) in runs of >=120 / >=240: simple8b selectors 0 and 1
		p := rapid.SampledFrom([]uint64{1, 10, 1e3, 1e9}).Draw(rt, "unit")
		for i := range d {
			d[i] = p
		}
		// break the run so that RLE is not chosen
		nb := rapid.IntRange(1, 3).Draw(rt, "breaks")
		for i := 0; i < nb; i++ {
			d[rapid.IntRange(0, len(d)-1).Draw(rt, "breakPos")] = p * rapid.SampledFrom([]uint64{2, 3, 7, 100}).Draw(rt, "breakMul")
		}
	case "one-big":
		b := rapid.SampledFrom([]int{3, 10, 30}).Draw(rt, "smallWidth")
		for i := range d {
			d[i] = rng.widthValue(1 + rng.intn(b))
		}
		d[rapid.IntRange(0, len(d)-1).Draw(rt, "bigPos")] = rapid.SampledFrom([]uint64{1 << 60, 1<<60 + 1, 1 << 62, 1 << 63, math.MaxUint64}).Draw(rt, "big")
	case "boundary":
		for i := range d {
			d[i] = []uint64{1<<60 - 1, 1<<60 - 2, 1 << 59, 1<<59 - 1, 1}[rng.intn(5)]
		}
		if rapid.Bool().Draw(rt, "cross") {
			d[rapid.IntRange(0, len(d)-1).Draw(rt, "crossPos")] = 1 << 60
			canon.WriteString("x")
		}
	case "random":
		for i := range d {
			d[i] = rng.next()
		}
	case "extremes":
		for i := range d {
			d[i] = []uint64{0, 1, math.MaxUint64, 1 << 63, 1<<63 - 1, 1<<63 + 1, 2, math.MaxUint64 - 1}[rng.intn(8)]
		}
	case "zeros":
		for i := range d {
			if rng.intn(4) == 0 {
				d[i] = uint64(rng.intn(3))
			}
		}
	}
	return d
}

func vC13DrawTimes(rt *rapid.T, n int, classes map[string]bool, canon *strings.Builder) []int64 {
	shape := rapid.SampledFrom(vC13DeltaShapes).Draw(rt, "tsShape")
	if n <= 64 && rapid.IntRange(0, 5).Draw(rt, "tsDrawn") == 0 {
		shape = "drawn"
	}
	classes["ts-shape:"+shape] = true
	start := rapid.SampledFrom([]int64{0, 1, -1, math.MinInt64, math.MaxInt64, math.MinInt64 + 2, math.MaxInt64 - 1, 1500000000000000000, -1500000000000000000, 946684800000000000}).Draw(rt, "tsStart")
	ts := make([]int64, n)
	ts[0] = start
	if shape == "drawn" {
		canon.WriteString("drawn:")
		for i := 1; i < n; i++ {
			ts[i] = rapid.Int64().Draw(rt, "t")
		}
		return ts
	}
	d := vC13Deltas(rt, n, shape, canon)
	for i := 1; i < n; i++ {
		ts[i] = int64(uint64(ts[i-1]) + d[i-1])
	}
	return ts
}

func vC13ZigZagDec(v uint64) int64 { return int64(v>>1) ^ -int64(v&1) }

func vC13DrawInts(rt *rapid.T, n int, classes map[string]bool, canon *strings.Builder) []int64 {
	shape := rapid.SampledFrom(vC13DeltaShapes).Draw(rt, "intShape")
	if n <= 64 && rapid.IntRange(0, 5).Draw(rt, "intDrawn") == 0 {
		shape = "drawn"
	}
	classes["int-shape:"+shape] = true
	v := make([]int64, n)
	// the first "delta" of the integer encoder is the first value itself (difference from 0)
	v[0] = rapid.SampledFrom([]int64{0, 1, -1, 7, math.MinInt64, math.MaxInt64, 1<<59 - 1, 1 << 59, -(1 << 59), -(1 << 59) - 1, 1 << 62, 123456789}).Draw(rt, "intFirst")
	if shape == "drawn" {
		canon.WriteString("drawn:")
		for i := 1; i < n; i++ {
			v[i] = rapid.Int64().Draw(rt, "v")
		}
		return v
	}
	d := vC13Deltas(rt, n, shape, canon)
	for i := 1; i < n; i++ {
		// d is the zig-zag form of the difference
		v[i] = int64(uint64(v[i-1]) + uint64(vC13ZigZagDec(d[i-1])))
	}
	return v
}

// ---------------------------------------------------------------- floats

var vC13FloatSpecial = []uint64{
	0, 1 << 63, math.Float64bits(1), math.Float64bits(-1), math.Float64bits(2), math.Float64bits(0.5), math.Float64bits(1024),
	math.Float64bits(math.MaxFloat64), math.Float64bits(-math.MaxFloat64), 1, 1<<63 | 1, 0x000FFFFFFFFFFFFF, 0x0010000000000000,
	math.Float64bits(0.1), math.Float64bits(100), math.Float64bits(1e-300), 0x7FEFFFFFFFFFFFFE, 0x7FE0000000000000,
	0x7FF8000000000001 &^ (1 << 62), 0x7FF8000000000001 ^ 1<<52, // one bit away from the end marker, still finite
}

func vC13Finite(b uint64) uint64 {
	if b&0x7FF0000000000000 == 0x7FF0000000000000 { // NaN/Inf: the line protocol parser rejects them
		b &^= 1 << 52
	}
	return b
}

var vC13FloatShapes = []string{"const", "random", "special", "xor-window", "small-ints", "decimal", "alternating", "sigbits64", "near-marker"}

func vC13DrawFloats(rt *rapid.T, n int, classes map[string]bool, canon *strings.Builder) []float64 {
	shape := rapid.SampledFrom(vC13FloatShapes).Draw(rt, "floatShape")
	if n <= 64 && rapid.IntRange(0, 5).Draw(rt, "floatDrawn") == 0 {
		shape = "drawn"
	}
	classes["float-shape:"+shape] = true
	fmt.Fprintf(canon, "%s:", shape)
	rng := vC13Rng(rapid.Uint64().Draw(rt, "fseed"))
	b := make([]uint64, n)
	b[0] = vC13Finite(rapid.SampledFrom(vC13FloatSpecial).Draw(rt, "floatFirst"))
	switch shape {
	case "drawn":
		for i := range b {
			b[i] = vC13Finite(rapid.Uint64().Draw(rt, "fbits"))
		}
	case "const":
		for i := range b {
			b[i] = b[0]
		}
		if n > 2 && rapid.Bool().Draw(rt, "constBreak") {
			b[rapid.IntRange(1, n-1).Draw(rt, "constBreakPos")] ^= 1 << uint(rapid.IntRange(0, 51).Draw(rt, "constBreakBit"))
		}
	case "random":
		for i := 1; i < n; i++ {
			b[i] = vC13Finite(rng.next())
		}
	case "special":
		for i := 1; i < n; i++ {
			b[i] = vC13Finite(vC13FloatSpecial[rng.intn(len(vC13FloatSpecial))])
		}
	case "xor-window":
		// successive values differ by a xor mask with chosen leading/trailing zero counts, so that
		// the "reuse the previous window" and "new window" paths, leading >= 32 and wide windows all occur
		for i := 1; i < n; i++ {
			lead := []int{0, 1, 5, 11, 12, 20, 31, 32, 33, 40, 52, 63}[rng.intn(12)]
			trail := []int{0, 1, 3, 10, 20, 31, 32, 40, 51, 63}[rng.intn(10)]
			if lead+trail > 63 {
				trail = 63 - lead
			}
			w := 64 - lead - trail
			m := rng.widthValue(w) | 1 // top and bottom bit of the window set
			if w == 64 {
				m = rng.next() | 1<<63 | 1
			}
			b[i] = b[i-1] ^ (m << uint(trail))
			if f := vC13Finite(b[i]); f != b[i] {
				b[i] = f
			}
		}
	case "small-ints":
		for i := 1; i < n; i++ {
			b[i] = math.Float64bits(float64(int(rng.next()%2001) - 1000))
		}
	case "decimal":
		x := float64(rng.intn(100000)) / 100
		for i := 0; i < n; i++ {
			x += float64(int(rng.next()%201)-100) / 100
			b[i] = math.Float64bits(x)
		}
	case "alternating":
		o := vC13Finite(rapid.SampledFrom(vC13FloatSpecial).Draw(rt, "floatOther"))
		for i := 1; i < n; i++ {
			if i%2 == 1 {
				b[i] = o
			} else {
				b[i] = b[0]
			}
		}
	case "sigbits64":
		// every xor has both bit 63 and bit 0 set: 64 significant bits, stored as 0 in the 6-bit field
		for i := 1; i < n; i++ {
			b[i] = vC13Finite(b[i-1] ^ (rng.next() | 1<<63 | 1))
		}
	case "near-marker":
		// values whose bit patterns are close to the encoder's end marker 0x7FF8000000000001
		for i := 1; i < n; i++ {
			b[i] = vC13Finite(0x7FF8000000000001 ^ (1 << uint(rng.intn(64))) ^ (uint64(rng.intn(2)) << uint(rng.intn(64))))
		}
	}
	f := make([]float64, n)
	for i := range b {
		f[i] = math.Float64frombits(vC13Finite(b[i]))
	}
	return f
}

// ---------------------------------------------------------------- booleans, strings

func vC13DrawBools(rt *rapid.T, n int, classes map[string]bool, canon *strings.Builder) []bool {
	shape := rapid.SampledFrom([]string{"all-true", "all-false", "alternating", "random", "one-set"}).Draw(rt, "boolShape")
	classes["bool-shape:"+shape] = true
	fmt.Fprintf(canon, "%s:%d", shape, n%8)
	rng := vC13Rng(rapid.Uint64().Draw(rt, "bseed"))
	v := make([]bool, n)
	pos := rng.intn(n)
	for i := range v {
		switch shape {
		case "all-true":
			v[i] = true
		case "alternating":
			v[i] = i%2 == 0
		case "random":
			v[i] = rng.next()&1 == 1
		case "one-set":
			v[i] = i == pos
		}
	}
	return v
}

func vC13DrawStrings(rt *rapid.T, n int, classes map[string]bool, canon *strings.Builder) []string {
	shape := rapid.SampledFrom([]string{"empty", "one-byte", "short", "repetitive", "high-entropy", "mixed", "huge"}).Draw(rt, "strShape")
	if shape == "huge" && n > 8 {
		shape = "mixed"
	}
	classes["string-shape:"+shape] = true
	fmt.Fprintf(canon, "%s:", shape)
	rng := vC13Rng(rapid.Uint64().Draw(rt, "sseed"))
	rnd := func(l int) string {
		b := make([]byte, l)
		for i := 0; i < l; i += 8 {
			x := rng.next()
			for j := 0; j < 8 && i+j < l; j++ {
				b[i+j] = byte(x >> uint(8*j))
			}
		}
		return string(b)
	}
	v := make([]string, n)
	for i := range v {
		switch shape {
		case "empty":
		case "one-byte":
			v[i] = string([]byte{byte(rng.next())})
		case "short":
			v[i] = rnd(rng.intn(20))
		case "repetitive":
			v[i] = strings.Repeat("ab", rng.intn(200))
		case "high-entropy":
			v[i] = rnd(rng.intn(300))
		case "mixed":
			switch rng.intn(4) {
			case 0:
			case 1:
				v[i] = rnd(1 + rng.intn(3))
			case 2:
				v[i] = strings.Repeat("x", rng.intn(1000))
			default:
				v[i] = rnd(rng.intn(100))
			}
		case "huge":
			if rng.intn(2) == 0 {
				v[i] = strings.Repeat("0123456789abcdef", 4096) // 64 KiB, compressible
			} else {
				v[i] = rnd(65536)
			}
		}
	}
	return v
}

// ---------------------------------------------------------------- one block: round trip and differential oracle

type vC13Seq struct {
	kind byte // 'f' 'i' 'u' 'b' 's'
	ts   []int64
	f    []float64
	i    []int64
	u    []uint64
	b    []bool
	s    []string
}

type vC13Err struct{ sig, msg string }

func vC13Fail(sig, f string, a ...interface{}) *vC13Err { return &vC13Err{sig, fmt.Sprintf(f, a...)} }

func vC13Safely(what string, f func() *vC13Err) (e *vC13Err) {
	defer func() {
		if r := recover(); r != nil {
			e = vC13Fail(what+"-panic", "%s panicked: %v", what, r)
		}
	}()
	return f()
}

func (q *vC13Seq) values() Values {
	v := make(Values, len(q.ts))
	for k, t := range q.ts {
		switch q.kind {
		case 'f':
			v[k] = NewFloatValue(t, q.f[k])
		case 'i':
			v[k] = NewIntegerValue(t, q.i[k])
		case 'u':
			v[k] = NewUnsignedValue(t, q.u[k])
		case 'b':
			v[k] = NewBooleanValue(t, q.b[k])
		case 's':
			v[k] = NewStringValue(t, q.s[k])
		}
	}
	return v
}

func (q *vC13Seq) blockType() byte {
	return map[byte]byte{'f': BlockFloat64, 'i': BlockInteger, 'u': BlockUnsigned, 'b': BlockBoolean, 's': BlockString}[q.kind]
}

// valueEq compares value k of the sequence with a decoded Go value, bit for bit.
func (q *vC13Seq) valueEq(k int, got interface{}) bool {
	switch q.kind {
	case 'f':
		g, ok := got.(float64)
		return ok && math.Float64bits(g) == math.Float64bits(q.f[k])
	case 'i':
		g, ok := got.(int64)
		return ok && g == q.i[k]
	case 'u':
		g, ok := got.(uint64)
		return ok && g == q.u[k]
	case 'b':
		g, ok := got.(bool)
		return ok && g == q.b[k]
	}
	g, ok := got.(string)
	return ok && g == q.s[k]
}

func (q *vC13Seq) describe(k int) string {
	switch q.kind {
	case 'f':
		return fmt.Sprintf("t=%d v=float bits %016x", q.ts[k], math.Float64bits(q.f[k]))
	case 'i':
		return fmt.Sprintf("t=%d v=%di", q.ts[k], q.i[k])
	case 'u':
		return fmt.Sprintf("t=%d v=%du", q.ts[k], q.u[k])
	case 'b':
		return fmt.Sprintf("t=%d v=%v", q.ts[k], q.b[k])
	}
	return fmt.Sprintf("t=%d v=string len %d", q.ts[k], len(q.s[k]))
}

// schemes reads the compression scheme nibbles (and the simple8b selectors) out of a block.
func vC13Schemes(blk []byte, kind byte, classes map[string]bool) (tsScheme, valScheme int) {
	tb, vb, err := unpackBlock(blk[1:])
	if err != nil || len(tb) == 0 {
		return -1, -1
	}
	tsScheme = int(tb[0] >> 4)
	classes[fmt.Sprintf("time-scheme:%s", []string{"raw", "simple8b", "rle"}[tsScheme%3])] = true
	if tsScheme == timeCompressedPackedSimple {
		classes[fmt.Sprintf("time-divisor:1e%d", tb[0]&0xF)] = true
		for o := 9; o+8 <= len(tb); o += 8 {
			classes[fmt.Sprintf("time-s8b-selector:%02d", tb[o]>>4)] = true
		}
	} else if tsScheme == timeCompressedRLE {
		classes[fmt.Sprintf("time-rle-divisor:1e%d", tb[0]&0xF)] = true
	}
	valScheme = -1
	if len(vb) > 0 {
		valScheme = int(vb[0] >> 4)
		if kind == 'i' || kind == 'u' {
			classes[fmt.Sprintf("int-scheme:%s", []string{"raw", "simple8b", "rle"}[valScheme%3])] = true
			if valScheme == intCompressedSimple {
				for o := 9; o+8 <= len(vb); o += 8 {
					classes[fmt.Sprintf("int-s8b-selector:%02d", vb[o]>>4)] = true
				}
			}
		}
	}
	return
}

// vC13CheckBlock is the C13 oracle for one sequence. It returns the block produced by Values.Encode.
func vC13CheckBlock(q *vC13Seq, classes map[string]bool) ([]byte, *vC13Err) {
	n := len(q.ts)
	var first []byte
	e := vC13Safely("codec", func() *vC13Err {
		// the three encoders of the same format
		type enc struct {
			name string
			f    func() ([]byte, error)
		}
		encs := []enc{{"Values.Encode", func() ([]byte, error) { return q.values().Encode(nil) }}}
		tsCopy := func() []int64 { return append([]int64(nil), q.ts...) }
		switch q.kind {
		case 'f':
			encs = append(encs,
				enc{"FloatValues.Encode", func() ([]byte, error) {
					v := make(FloatValues, n)
					for k := range v {
						v[k] = FloatValue{unixnano: q.ts[k], value: q.f[k]}
					}
					return v.Encode(nil)
				}},
				enc{"EncodeFloatArrayBlock", func() ([]byte, error) {
					return EncodeFloatArrayBlock(&tsdb.FloatArray{Timestamps: tsCopy(), Values: append([]float64(nil), q.f...)}, nil)
				}})
		case 'i':
			encs = append(encs,
				enc{"IntegerValues.Encode", func() ([]byte, error) {
					v := make(IntegerValues, n)
					for k := range v {
						v[k] = IntegerValue{unixnano: q.ts[k], value: q.i[k]}
					}
					return v.Encode(nil)
				}},
				enc{"EncodeIntegerArrayBlock", func() ([]byte, error) {
					return EncodeIntegerArrayBlock(&tsdb.IntegerArray{Timestamps: tsCopy(), Values: append([]int64(nil), q.i...)}, nil)
				}})
		case 'u':
			encs = append(encs,
				enc{"UnsignedValues.Encode", func() ([]byte, error) {
					v := make(UnsignedValues, n)
					for k := range v {
						v[k] = UnsignedValue{unixnano: q.ts[k], value: q.u[k]}
					}
					return v.Encode(nil)
				}},
				enc{"EncodeUnsignedArrayBlock", func() ([]byte, error) {
					return EncodeUnsignedArrayBlock(&tsdb.UnsignedArray{Timestamps: tsCopy(), Values: append([]uint64(nil), q.u...)}, nil)
				}})
		case 'b':
			encs = append(encs,
				enc{"BooleanValues.Encode", func() ([]byte, error) {
					v := make(BooleanValues, n)
					for k := range v {
						v[k] = BooleanValue{unixnano: q.ts[k], value: q.b[k]}
					}
					return v.Encode(nil)
				}},
				enc{"EncodeBooleanArrayBlock", func() ([]byte, error) {
					return EncodeBooleanArrayBlock(&tsdb.BooleanArray{Timestamps: tsCopy(), Values: append([]bool(nil), q.b...)}, nil)
				}})
		case 's':
			encs = append(encs,
				enc{"StringValues.Encode", func() ([]byte, error) {
					v := make(StringValues, n)
					for k := range v {
						v[k] = StringValue{unixnano: q.ts[k], value: q.s[k]}
					}
					return v.Encode(nil)
				}},
				enc{"EncodeStringArrayBlock", func() ([]byte, error) {
					return EncodeStringArrayBlock(&tsdb.StringArray{Timestamps: tsCopy(), Values: append([]string(nil), q.s...)}, nil)
				}})
		}
		for ei, en := range encs {
			blk, err := en.f()
			if err != nil {
				return vC13Fail("encode-error", "%s of %d values failed: %v", en.name, n, err)
			}
			blk = append([]byte(nil), blk...) // encoders hand out pooled buffers
			if ei == 0 {
				first = blk
				vC13Schemes(blk, q.kind, classes)
			}
			if bt, err := BlockType(blk); err != nil || bt != q.blockType() {
				return vC13Fail("blocktype-wrong", "%s: BlockType %d err %v, want %d", en.name, bt, err, q.blockType())
			}
			if bc, err := BlockCount(blk); err != nil || bc != n {
				return vC13Fail("blockcount-wrong", "%s: BlockCount %d err %v, want %d", en.name, bc, err, n)
			}
			// decoder 1: DecodeBlock (iterator codecs)
			dec, err := DecodeBlock(blk, nil)
			if err != nil {
				return vC13Fail("decode-error", "DecodeBlock of %s output: %v", en.name, err)
			}
			if len(dec) != n {
				return vC13Fail("decode-count", "DecodeBlock of %s output: %d values, want %d", en.name, len(dec), n)
			}
			for k, v := range dec {
				if v.UnixNano() != q.ts[k] || !q.valueEq(k, v.Value()) {
					return vC13Fail("roundtrip-differs", "%s -> DecodeBlock: value #%d of %d is t=%d v=%v, want %s", en.name, k, n, v.UnixNano(), v.Value(), q.describe(k))
				}
			}
			// decoder 2: the array (batch) decoders, an independent implementation
			var ats []int64
			var get func(k int) interface{}
			var alen int
			// The destination is what a cursor hands in: usually the array that held the previous block, i.e. longer or
			// shorter than this block and full of other values. Two cases out of three decode into such a dirty
			// array (chosen from the case itself, so that a run stays a function of its seed).
			dirty := (n+len(blk))%3 != 0
			dn := 0
			if dirty {
				dn = n + 13
				if (n+len(blk))%3 == 2 && n > 4 {
					dn = n - 3
				}
			}
			dts := make([]int64, dn)
			for k := range dts {
				dts[k] = int64(-7 - k)
			}
			switch q.kind {
			case 'f':
				a := &tsdb.FloatArray{Timestamps: dts, Values: make([]float64, dn)}
				for k := range a.Values {
					a.Values[k] = 12345.678
				}
				err = DecodeFloatArrayBlock(blk, a)
				ats, alen, get = a.Timestamps, len(a.Values), func(k int) interface{} { return a.Values[k] }
			case 'i':
				a := &tsdb.IntegerArray{Timestamps: dts, Values: make([]int64, dn)}
				for k := range a.Values {
					a.Values[k] = -99
				}
				err = DecodeIntegerArrayBlock(blk, a)
				ats, alen, get = a.Timestamps, len(a.Values), func(k int) interface{} { return a.Values[k] }
			case 'u':
				a := &tsdb.UnsignedArray{Timestamps: dts, Values: make([]uint64, dn)}
				for k := range a.Values {
					a.Values[k] = 1<<63 + 5
				}
				err = DecodeUnsignedArrayBlock(blk, a)
				ats, alen, get = a.Timestamps, len(a.Values), func(k int) interface{} { return a.Values[k] }
			case 'b':
				a := &tsdb.BooleanArray{Timestamps: dts, Values: make([]bool, dn)}
				for k := range a.Values {
					a.Values[k] = true
				}
				err = DecodeBooleanArrayBlock(blk, a)
				ats, alen, get = a.Timestamps, len(a.Values), func(k int) interface{} { return a.Values[k] }
			case 's':
				a := &tsdb.StringArray{Timestamps: dts, Values: make([]string, dn)}
				for k := range a.Values {
					a.Values[k] = "stale"
				}
				err = DecodeStringArrayBlock(blk, a)
				ats, alen, get = a.Timestamps, len(a.Values), func(k int) interface{} { return a.Values[k] }
			}
			if err != nil {
				return vC13Fail("array-decode-error", "array decoder on %s output: %v", en.name, err)
			}
			if len(ats) != n || alen != n {
				return vC13Fail("array-decode-count", "array decoder on %s output: %d timestamps, %d values, want %d", en.name, len(ats), alen, n)
			}
			for k := 0; k < n; k++ {
				if ats[k] != q.ts[k] || !q.valueEq(k, get(k)) {
					return vC13Fail("array-roundtrip-differs", "%s -> array decoder: value #%d of %d is t=%d v=%v, want %s", en.name, k, n, ats[k], get(k), q.describe(k))
				}
			}
		}
		// typed iterator decoders with a reused destination
		switch q.kind {
		case 'f':
			buf := make([]FloatValue, 3)
			d, err := DecodeFloatBlock(first, &buf)
			if err != nil || len(d) != n {
				return vC13Fail("typed-decode", "DecodeFloatBlock: %d values err %v", len(d), err)
			}
		case 'i':
			buf := make([]IntegerValue, 3)
			d, err := DecodeIntegerBlock(first, &buf)
			if err != nil || len(d) != n {
				return vC13Fail("typed-decode", "DecodeIntegerBlock: %d values err %v", len(d), err)
			}
		}
		return nil
	})
	return first, e
}
