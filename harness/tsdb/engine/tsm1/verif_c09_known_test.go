//go:build verif

package tsm1

// C09 - directed reproductions of the known findings that the main campaign excludes by
// construction. Each test passes silently when the defect no longer reproduces.

import (
	"fmt"
	"os"
	"strings"
	"testing"
	"time"

	"github.com/influxdata/influxdb/pkg/verifhook"
	"verifkit"
)

// vC09Literal builds a one-key case from literal block lists: files[f][b] = timestamps of block b.
func vC09Literal(typ byte, files [][][]int64) *vC09Case {
	c := &vC09Case{keys: []string{"m,host=a#!~#v"}, types: []byte{typ}}
	for f, blks := range files {
		fl := &vC09File{gen: f + 1, seq: 1, ord: f, blocks: make([][]vC09Blk, 1)}
		for _, ts := range blks {
			fl.blocks[0] = append(fl.blocks[0], vC09Blk{append([]int64(nil), ts...)})
		}
		c.files = append(c.files, fl)
		c.order = append(c.order, f)
	}
	return c
}

func vC09OpenLiteral(t *testing.T, c *vC09Case) (string, *FileStore) {
	dir, err := vC09TempDir()
	if err != nil {
		t.Fatal(err)
	}
	if err := c.write(dir); err != nil {
		t.Fatal(err)
	}
	fs := NewFileStore(dir)
	if err := fs.Open(); err != nil {
		t.Fatal(err)
	}
	return dir, fs
}

// Three generations hold 11 + 11 + 4 small blocks of one series with overlapping time ranges
// (the layout level-3 / optimize compactions leave behind, which pass blocks through unmerged).
// A full compaction sorts the 26 blocks with sort.Stable and blocks.Less, which is not a strict
// weak order ("a entirely before b"); beyond 20 elements sort.Stable merges insertion-sorted
// runs and puts an older block after a newer overlapping one, so the OLDER value wins.
func TestVerifC09KFMergeOrder(t *testing.T) {
	const sig = "compaction-misorders-more-than-20-blocks-of-a-key"
	st := verifkit.For("C09", "TestVerifC09KFMergeOrder", "directed: one literal 3-file layout with 26 overlapping blocks of one key, CompactFull, content compared with the reference fold")
	defer st.Flush()
	c := vC09Literal('i', [][][]int64{
		{{2}, {4}, {6}, {8, 11}, {14, 17}, {21}, {25, 29}, {32, 34}, {38}, {42}, {43, 47}},
		{{3}, {6, 12}, {15}, {18}, {20, 26}, {30, 32}, {36}, {37, 43}, {47}, {48}, {52}},
		{{0}, {1, 5}, {8, 14}, {15, 20}},
	})
	dir, fs := vC09OpenLiteral(t, c)
	defer os.RemoveAll(dir)
	defer fs.Close()
	ref := c.reference()
	before, err := vC09ReadFold(fs, c.keys, nil)
	if err != nil {
		t.Fatal(err)
	}
	if d := vC09Diff(ref, before, nil); d != "" {
		t.Fatalf("%s before compaction: %s", verifkit.Sig("kf-merge-order-reference-broken"), d)
	}
	cp := NewCompactor()
	cp.Dir, cp.FileStore = dir, fs
	cp.Open()
	defer cp.Close()
	var group []string
	for _, fl := range c.files {
		group = append(group, fl.path)
	}
	outs, err := cp.CompactFull(group)
	if err != nil {
		t.Fatalf("%s CompactFull: %v", verifkit.Sig("kf-merge-order-compaction-failed"), err)
	}
	if err := fs.Replace(group, outs); err != nil {
		t.Fatal(err)
	}
	after, err := vC09ReadFold(fs, c.keys, nil)
	if err != nil {
		t.Fatal(err)
	}
	d := vC09Diff(ref, after, nil)
	st.Case(true, "literal-26-blocks", fmt.Sprintf("kf:reproduced=%v", d != ""))
	st.Sample(map[string]interface{}{"input": c.describe(), "difference": d})
	if d != "" {
		st.KnownReproduced(sig, "CompactFull of 3 generations holding 26 overlapping blocks of one key returns the older value: "+d)
	}
}

// Four generations hold 13 small blocks of one series. FileStore.KeyCursor sorts the block
// locations with sort.Sort and ascLocations/descLocations.Less (overlapping -> by file name,
// otherwise by time), which is not transitive; beyond 12 elements sort.Sort no longer is an
// insertion sort and an older overlapping block ends up after the newer one: the cursor returns
// the OLDER value. A compaction of the same files then changes what the read returns.
func TestVerifC09KFKeyCursorOrder(t *testing.T) {
	const sig = "keycursor-misorders-more-than-12-overlapping-blocks"
	st := verifkit.For("C09", "TestVerifC09KFKeyCursorOrder", "directed: one literal 4-file layout with 13 overlapping blocks of one key read through FileStore.KeyCursor ascending and descending, before and after CompactFull")
	defer st.Flush()
	c := vC09Literal('i', [][][]int64{
		{{0}, {1}, {2}, {3}, {4}, {5}},
		{{0}},
		{{1, 2}, {3}, {4}, {5}, {7}},
		{{1}},
	})
	dir, fs := vC09OpenLiteral(t, c)
	defer os.RemoveAll(dir)
	defer fs.Close()
	ref := c.reference()
	fold, err := vC09ReadFold(fs, c.keys, nil)
	if err != nil {
		t.Fatal(err)
	}
	if d := vC09Diff(ref, fold, nil); d != "" {
		t.Fatalf("%s ReadAll fold: %s", verifkit.Sig("kf-keycursor-reference-broken"), d)
	}
	diffs := ""
	for _, asc := range []bool{true, false} {
		got, err := vC09CursorContent(fs, c.keys, c.types, asc, nil)
		if err != nil {
			diffs += fmt.Sprintf("asc=%v: %v; ", asc, err)
			continue
		}
		if d := vC09Diff(ref, got, nil); d != "" {
			diffs += fmt.Sprintf("asc=%v: %s; ", asc, d)
		}
	}
	// after a full compaction the same read returns the reference: the compaction changed it
	cp := NewCompactor()
	cp.Dir, cp.FileStore = dir, fs
	cp.Open()
	defer cp.Close()
	var group []string
	for _, fl := range c.files {
		group = append(group, fl.path)
	}
	afterOK := false
	if outs, err := cp.CompactFull(group); err == nil && fs.Replace(group, outs) == nil {
		afterOK = true
		for _, asc := range []bool{true, false} {
			got, err := vC09CursorContent(fs, c.keys, c.types, asc, nil)
			if err != nil || vC09Diff(ref, got, nil) != "" {
				afterOK = false
			}
		}
	}
	st.Case(true, "literal-13-locations", fmt.Sprintf("kf:reproduced=%v", diffs != ""))
	st.Sample(map[string]interface{}{"input": c.describe(), "difference": diffs, "cursor_correct_after_compaction": afterOK})
	if diffs != "" {
		st.KnownReproduced(sig, fmt.Sprintf("KeyCursor over 4 generations holding 13 overlapping blocks of one key returns the older value (correct after CompactFull: %v): %s", afterOK, diffs))
	}
}

// Two generations overlap on one key and one block of the older file cannot be decoded (its type
// byte is damaged). CompactFull must fail and leave the inputs in place; instead
// tsmBatchKeyIterator.Next retries the same merge forever, appending one error per round (the
// process grows until it is killed), and never looks at the interrupt channel. The test undoes
// the damage after three seconds (the mapping is shared with the file) so the leaked loop ends.
func TestVerifC09KFUndecodableBlockSpins(t *testing.T) {
	const sig = "compaction-spins-forever-on-undecodable-block"
	st := verifkit.For("C09", "TestVerifC09KFUndecodableBlockSpins", "directed: two overlapping files, one block with a damaged type byte, CompactFull under a 3 s watchdog; the damage is undone afterwards so that the loop ends")
	defer st.Flush()
	c := vC09Literal('f', [][][]int64{
		{{1, 2, 3}, {10, 11}},
		{{2, 3, 4}},
	})
	dir, err := vC09TempDir()
	if err != nil {
		t.Fatal(err)
	}
	defer os.RemoveAll(dir)
	if err := c.write(dir); err != nil {
		t.Fatal(err)
	}
	// damage block 0 of file 0
	fd, err := os.Open(c.files[0].path)
	if err != nil {
		t.Fatal(err)
	}
	r, err := NewTSMReader(fd)
	if err != nil {
		t.Fatal(err)
	}
	es := r.Entries([]byte(c.keys[0]))
	r.Close()
	off := es[0].Offset + 4
	f, err := os.OpenFile(c.files[0].path, os.O_RDWR, 0666)
	if err != nil {
		t.Fatal(err)
	}
	defer f.Close()
	orig := make([]byte, 1)
	if _, err := f.ReadAt(orig, off); err != nil {
		t.Fatal(err)
	}
	if _, err := f.WriteAt([]byte{0x55}, off); err != nil {
		t.Fatal(err)
	}
	fs := NewFileStore(dir)
	if err := fs.Open(); err != nil {
		t.Fatal(err)
	}
	defer fs.Close()
	before, err := vC09DirState(dir)
	if err != nil {
		t.Fatal(err)
	}
	cp := NewCompactor()
	cp.Dir, cp.FileStore = dir, fs
	cp.Open()
	defer cp.Close()
	group := []string{c.files[0].path, c.files[1].path}
	done := make(chan error, 1)
	go func() {
		_, err := cp.CompactFull(group)
		done <- err
	}()
	spun := false
	var cerr error
	select {
	case cerr = <-done:
	case <-time.After(3 * time.Second):
		spun = true
		// undo the damage: the next decode succeeds and the loop ends (with the errors collected so far)
		if _, err := f.WriteAt(orig, off); err != nil {
			t.Fatal(err)
		}
		select {
		case cerr = <-done:
		case <-time.After(vOpTimeout):
			t.Fatalf("%s CompactFull still running %v after the block was repaired", verifkit.Sig("kf-spin-does-not-end"), vOpTimeout)
		}
	}
	st.Case(true, "literal-undecodable-block", fmt.Sprintf("kf:reproduced=%v", spun))
	st.Sample(map[string]interface{}{"input": c.describe(), "spun": spun, "error_after": fmt.Sprint(cerr)})
	if spun {
		st.KnownReproduced(sig, "CompactFull over two overlapping files with one undecodable block did not return within 3 s (tsmBatchKeyIterator.Next retries the failing merge forever and accumulates errors); it returned only after the block was repaired on disk")
		return
	}
	// repaired tree: the compaction must fail and leave everything as it was
	if cerr == nil {
		t.Fatalf("%s CompactFull over an undecodable block reported success", verifkit.Sig("compaction-ignores-undecodable-block"))
	}
	after, err := vC09DirState(dir)
	if err != nil {
		t.Fatal(err)
	}
	if d := vC09DirDiff(before, after); d != "" {
		t.Fatalf("%s after the failed compaction (%v) the directory differs: %s", verifkit.Sig("failed-compaction-changed-files"), cerr, d)
	}
}

// DisableSnapshots arrives while WriteSnapshot is writing the LAST block of the cache snapshot
// (the engine does this from disableSnapshotCompactions on Close / SetEnabled(false)). The file is
// completed, WriteSnapshot then notices that snapshots were disabled and returns
// errSnapshotsDisabled - without removing the finished .tsm.tmp file, unlike CompactFull and
// CompactFast. The originals stay intact (the property's text holds); the temporary file stays
// in the shard directory until the next restart.
func TestVerifC09KFSnapshotAbortLeavesTmp(t *testing.T) {
	const sig = "aborted-snapshot-left-tmp"
	st := verifkit.For("C09", "TestVerifC09KFSnapshotAbortLeavesTmp", "directed: a one-value cache, DisableSnapshots from the compact.block hook at the only block, directory listed afterwards")
	defer st.Flush()
	dir, err := vC09TempDir()
	if err != nil {
		t.Fatal(err)
	}
	defer os.RemoveAll(dir)
	fs := NewFileStore(dir)
	if err := fs.Open(); err != nil {
		t.Fatal(err)
	}
	defer fs.Close()
	cache := NewCache(0)
	if err := cache.Write([]byte("m,host=a#!~#v"), []Value{NewFloatValue(1, 1.5)}); err != nil {
		t.Fatal(err)
	}
	cp := NewCompactor()
	cp.Dir, cp.FileStore = dir, fs
	cp.Open()
	defer cp.Close()
	vC09InstallHook()
	defer verifhook.Set(nil)
	fired := false
	vC09SetHook(func(ev, path string, _ int64) {
		if ev == "compact.block" && strings.HasPrefix(path, dir) && !fired {
			fired = true
			cp.DisableSnapshots()
		}
	})
	snap, err := cache.Snapshot()
	if err != nil {
		t.Fatal(err)
	}
	snap.Deduplicate()
	outs, werr := cp.WriteSnapshot(snap)
	vC09SetHook(nil)
	if !fired {
		t.Fatalf("%s the compact.block hook did not fire during WriteSnapshot", verifkit.Sig("hook-compact-block-never-fired"))
	}
	left := vC09TmpFiles(dir)
	st.Case(true, "literal-one-value-cache", fmt.Sprintf("kf:reproduced=%v", werr != nil && len(left) > 0))
	st.Sample(map[string]interface{}{"error": fmt.Sprint(werr), "returned_files": outs, "left_in_directory": left})
	if werr != nil && len(left) > 0 {
		st.KnownReproduced(sig, fmt.Sprintf("WriteSnapshot returned %q after DisableSnapshots at the last block and left %v in the shard directory", werr, left))
	}
}
