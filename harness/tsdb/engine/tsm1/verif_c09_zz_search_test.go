//go:build verif

package tsm1

import (
	"fmt"
	"os"
	"testing"

	"pgregory.net/rapid"
)

// temporary: search for minimal examples of the two ordering findings
func vC09zzCase(rt *rapid.T, maxFiles, maxBlk int) *vC09Case {
	c := &vC09Case{keys: []string{"m,host=a#!~#v"}, types: []byte{'i'}}
	nf := rapid.IntRange(2, maxFiles).Draw(rt, "nf")
	for f := 0; f < nf; f++ {
		fl := &vC09File{gen: f + 1, seq: 1, ord: f, blocks: make([][]vC09Blk, 1)}
		nb := rapid.IntRange(1, maxBlk).Draw(rt, "nb")
		cur := rapid.Int64Range(0, 10).Draw(rt, "start")
		for b := 0; b < nb; b++ {
			n := rapid.IntRange(1, 2).Draw(rt, "n")
			ts := []int64{cur}
			if n == 2 {
				cur += rapid.Int64Range(1, 6).Draw(rt, "w")
				ts = append(ts, cur)
			}
			fl.blocks[0] = append(fl.blocks[0], vC09Blk{ts})
			cur += rapid.Int64Range(1, 4).Draw(rt, "gap")
		}
		c.files = append(c.files, fl)
		c.order = append(c.order, f)
	}
	return c
}

func TestVerifC09ZZMerge(t *testing.T) {
	rapid.Check(t, func(rt *rapid.T) {
		c := vC09zzCase(rt, 3, 14)
		dir, _ := os.MkdirTemp("", "zz")
		defer os.RemoveAll(dir)
		if err := c.write(dir); err != nil {
			rt.Fatal(err)
		}
		fs := NewFileStore(dir)
		if err := fs.Open(); err != nil {
			rt.Fatal(err)
		}
		defer fs.Close()
		cp := NewCompactor()
		cp.Dir, cp.FileStore = dir, fs
		cp.Open()
		var group []string
		for _, fl := range c.files {
			group = append(group, fl.path)
		}
		outs, err := cp.CompactFull(group)
		if err != nil {
			rt.Fatal(err)
		}
		if err := fs.Replace(group, outs); err != nil {
			rt.Fatal(err)
		}
		got, err := vC09ReadFold(fs, c.keys, nil)
		if err != nil {
			rt.Fatal(err)
		}
		if d := vC09Diff(c.reference(), got, nil); d != "" {
			rt.Fatalf("DIFF %s\n%s", d, fmt.Sprint(c.describe()))
		}
	})
}

func TestVerifC09ZZCursor(t *testing.T) {
	rapid.Check(t, func(rt *rapid.T) {
		c := vC09zzCase(rt, 4, 8)
		dir, _ := os.MkdirTemp("", "zz")
		defer os.RemoveAll(dir)
		if err := c.write(dir); err != nil {
			rt.Fatal(err)
		}
		fs := NewFileStore(dir)
		if err := fs.Open(); err != nil {
			rt.Fatal(err)
		}
		defer fs.Close()
		asc := rapid.Bool().Draw(rt, "asc")
		got, err := vC09CursorContent(fs, c.keys, c.types, asc, nil)
		if err != nil {
			rt.Fatalf("ERR %v\n%s", err, fmt.Sprint(c.describe()))
		}
		if d := vC09Diff(c.reference(), got, nil); d != "" {
			rt.Fatalf("DIFF asc=%v %s\n%s", asc, d, fmt.Sprint(c.describe()))
		}
	})
}
