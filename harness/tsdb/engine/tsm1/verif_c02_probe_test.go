//go:build verif

package tsm1

import (
	"os"
	"testing"

	"github.com/influxdata/influxql"
)

func TestVerifC02Probe(t *testing.T) {
	mk := func(n int, base int64, mul int64) []vPt {
		var pts []vPt
		for i := 0; i < n; i++ {
			pts = append(pts, vPt{M: "m0", Tags: map[string]string{"host": "a"}, Fields: map[string]vVal{"f0": vI(int64(i) * mul)}, TS: base + int64(i)})
		}
		return pts
	}
	type step struct {
		op string
		n  int
		b  int64
	}
	scen := map[string][]step{
		"A cache only 1001":            {{"w", 1001, 0}},
		"B file+cache same":            {{"w", 1001, 0}, {"s", 0, 0}, {"w", 1001, 0}},
		"C file+cache shifted":         {{"w", 1001, 0}, {"s", 0, 0}, {"w", 1000, 9}},
		"D two files":                  {{"w", 1001, 0}, {"s", 0, 0}, {"w", 1000, 9}, {"s", 0, 0}},
		"E cache 2100":                 {{"w", 2100, 30}},
		"F cache 1000 + 2100":          {{"w", 1000, 0}, {"w", 2100, 30}},
		"G file 1000 + cache 2100":     {{"w", 1000, 0}, {"s", 0, 0}, {"w", 2100, 30}},
	}
	for name, steps := range scen {
		root, _ := os.MkdirTemp("", "probe")
		b, err := vNewBed(root, "inmem", 1)
		if err != nil {
			t.Fatal(err)
		}
		mul := int64(1)
		for _, s := range steps {
			switch s.op {
			case "w":
				mul++
				pts := mk(s.n, s.b, mul)
				if err := b.write(1, pts); err != nil {
					t.Fatal(err)
				}
				b.applyWrite(1, pts)
			case "s":
				if err := b.snapshot(1); err != nil {
					t.Fatal(err)
				}
			}
		}
		for _, asc := range []bool{true, false} {
			want := b.modelSeriesRows(1, "m0,host=a", "f0", asc, influxql.MinTime, influxql.MaxTime)
			got, err := b.readCursor(1, "m0,host=a", "f0", asc, influxql.MinTime, influxql.MaxTime)
			it, err2 := b.readField(1, "m0", "f0", asc, influxql.MinTime, influxql.MaxTime, "")
			t.Logf("%s asc=%v: want %d cursor %d (eq %v, err %v) iterator %d (eq %v, err %v)", name, asc, len(want), len(got), vRowsEqual(got, want), err, len(it), vRowsEqual(it, want), err2)
		}
		b.close()
		os.RemoveAll(root)
	}
}
