//go:build verif

package tsm1

// C02 - a read that is in flight while a cache snapshot is installed returns every acknowledged point. The
// schedule is owned: the query is made to wait at its cache lookup (behind the lock of the cache partition of one
// of its keys, as it would behind a writer inserting a new key there) while the flush writes the file, installs
// it in the file store and releases the snapshot; then the query continues. Whatever order the query consults
// cache and files in, the points must come from the snapshot, from the new file, or from both.

import (
	"fmt"
	"os"
	"sort"
	"testing"
	"time"

	"github.com/influxdata/influxql"
	"go.uber.org/zap"
	"pgregory.net/rapid"
	"verifkit"
)

func TestVerifC02ReadAcrossInstall(t *testing.T) {
	st := verifkit.For("C02", "TestVerifC02ReadAcrossInstall",
		"bed E (inmem, one shard): 1..3 generated batches, optionally an earlier snapshot (so that files exist) and more batches; then the cache snapshot is taken with the engine's own steps, a reader (ascending or descending, one measurement and field, all series) is started and held at the cache partition lock of one key that lives in the snapshot, the flush (Compactor.WriteSnapshot + FileStore.Replace + Cache.ClearSnapshot) runs until the file is installed and the snapshot store released, and the reader is let go. Oracle: the reader returns exactly the model (one point per timestamp, newest value, in order) and so does a read afterwards. non-trivial = the held key has points both in an older file and in the snapshot; distinct = (batches, earlier snapshot, direction, key)")
	defer st.Flush()
	rapid.Check(t, func(rt *rapid.T) {
		root, err := os.MkdirTemp("", "c02i")
		if err != nil {
			rt.Fatal(err)
		}
		defer os.RemoveAll(root)
		b, err := vNewBed(root, "inmem", 1)
		if err != nil {
			rt.Fatalf("open: %v", err)
		}
		defer b.close()
		shard := b.shards[0]
		wr := func(label string) []vPt {
			pts := b.vDrawBatch(rt, shard, 20)
			if err := b.write(shard, pts); err != nil {
				rt.Fatalf("%s well-typed write failed: %v", verifkit.Sig("write-rejected"), err)
			}
			b.applyWrite(shard, pts)
			return pts
		}
		earlier := rapid.Bool().Draw(rt, "earlierSnapshot")
		if earlier {
			for i := rapid.IntRange(1, 2).Draw(rt, "batchesBefore"); i > 0; i-- {
				wr("before")
			}
			if err := b.snapshot(shard); err != nil {
				rt.Fatalf("%s snapshot: %v", verifkit.Sig("snapshot-error"), err)
			}
		}
		var inCache []vPt
		nb := rapid.IntRange(1, 3).Draw(rt, "batches")
		for i := 0; i < nb; i++ {
			inCache = append(inCache, wr("cache")...)
		}
		// the key the reader is held at: a series+field written since the last snapshot
		type kf struct{ series, m, f string }
		seen := map[kf]bool{}
		var cands []kf
		for _, p := range inCache {
			for f := range p.Fields {
				k := kf{p.series(), p.M, f}
				if _, ok := b.model[vKey{shard, k.series, f, p.TS}]; ok && !seen[k] {
					seen[k] = true
					cands = append(cands, k)
				}
			}
		}
		if len(cands) == 0 {
			rt.Skip("every point of the batches was rejected")
		}
		sort.Slice(cands, func(i, j int) bool { return fmt.Sprint(cands[i]) < fmt.Sprint(cands[j]) })
		held := rapid.SampledFrom(cands).Draw(rt, "heldKey")
		asc := rapid.Bool().Draw(rt, "ascending")
		e, err := b.engine(shard)
		if err != nil {
			rt.Fatal(err)
		}
		// first half of Engine.WriteSnapshot
		var segments []string
		e.mu.Lock()
		if e.WALEnabled {
			if err := e.WAL.CloseSegment(); err != nil {
				e.mu.Unlock()
				rt.Fatal(err)
			}
			if segments, err = e.WAL.ClosedSegments(); err != nil {
				e.mu.Unlock()
				rt.Fatal(err)
			}
		}
		snapshot, err := e.Cache.Snapshot()
		e.mu.Unlock()
		if err != nil {
			rt.Fatalf("harness: Cache.Snapshot: %v", err)
		}
		snapshot.Deduplicate()
		key := SeriesFieldKeyBytes(held.series, held.f)
		e.Cache.mu.RLock()
		hot, ok := e.Cache.store.(*ring)
		e.Cache.mu.RUnlock()
		if !ok {
			rt.Fatalf("harness: the cache store is not a ring")
		}
		part := hot.getPartition(key)
		part.mu.Lock()
		locked := true
		unlock := func() {
			if locked {
				locked = false
				part.mu.Unlock()
			}
		}
		defer unlock()
		type result struct {
			rows []vRow
			err  error
		}
		readC := make(chan result, 1)
		go func() {
			rows, err := b.readField(shard, held.m, held.f, asc, influxql.MinTime, influxql.MaxTime, "")
			readC <- result{rows, err}
		}()
		// let the reader reach the lock (scheduling aid only: a reader that has not reached it yet simply
		// reads after the install, which must be correct as well)
		select {
		case r := <-readC:
			readC <- r // the read did not touch the partition (possible if it found nothing to look up): judged below
		case <-time.After(60 * time.Millisecond):
		}
		files := e.FileStore.Count()
		flushC := make(chan error, 1)
		go func() { flushC <- e.writeSnapshotAndCommit(zap.NewNop(), segments, snapshot) }()
		deadline := time.Now().Add(30 * time.Second)
		for e.FileStore.Count() == files || snapshot.store.entry(key) != nil {
			select {
			case err := <-flushC:
				unlock()
				<-readC
				rt.Fatalf("VERIF-INCONCLUSIVE harness: the flush ended before it installed the file and released the snapshot: %v", err)
			case <-time.After(time.Millisecond):
			}
			if time.Now().After(deadline) {
				unlock()
				rt.Fatalf("VERIF-INCONCLUSIVE harness: the flush did not install the file and release the snapshot within 30 s")
			}
		}
		unlock()
		var r result
		select {
		case r = <-readC:
		case <-time.After(vOpTimeout):
			rt.Fatalf("%s the held query did not finish after its lock was released", verifkit.Sig("read-hang"))
		}
		select {
		case err := <-flushC:
			if err != nil {
				rt.Fatalf("%s flush: %v", verifkit.Sig("snapshot-error"), err)
			}
		case <-time.After(vOpTimeout):
			rt.Fatalf("%s the flush did not finish after the query moved on", verifkit.Sig("snapshot-hang"))
		}
		judge := func(when string, rows []vRow, err error) {
			if err != nil {
				rt.Fatalf("%s %s: %v", verifkit.Sig("read-error"), when, err)
			}
			got := map[string][]vRow{}
			for _, row := range rows {
				got[row.Series] = append(got[row.Series], row)
			}
			want := map[string]bool{}
			for k := range b.model {
				if name, _ := vParseSeries(k.Series); k.Shard == shard && name == held.m && k.Field == held.f {
					want[k.Series] = true
				}
			}
			for s := range got {
				want[s] = true
			}
			for s := range want {
				w := b.modelSeriesRows(shard, s, held.f, asc, influxql.MinTime, influxql.MaxTime)
				g := got[s]
				if len(g) != len(w) {
					rt.Fatalf("%s %s: series %s field %s (asc=%v): read returned %d points, the model has %d; held key %s; got %v want %v", verifkit.Sig("read-across-snapshot-install-differs"), when, s, held.f, asc, len(g), len(w), key, g, w)
				}
				for i := range w {
					if g[i].TS != w[i].TS || g[i].V != w[i].V {
						rt.Fatalf("%s %s: series %s field %s (asc=%v): point %d is %v, want %v", verifkit.Sig("read-across-snapshot-install-differs"), when, s, held.f, asc, i, g[i], w[i])
					}
				}
			}
		}
		judge("read in flight while the cache snapshot was installed", r.rows, r.err)
		rows, err := b.readField(shard, held.m, held.f, asc, influxql.MinTime, influxql.MaxTime, "")
		judge("read after the install", rows, err)
		st.Case(earlier, fmt.Sprint(nb, earlier, asc, held), fmt.Sprintf("earlierSnapshot:%v", earlier), fmt.Sprintf("asc:%v", asc))
		if st.WantSample() {
			st.Sample(map[string]interface{}{"batches_in_cache": nb, "earlier_snapshot": earlier, "ascending": asc, "held_key": string(key)})
		} else {
			st.Sample(nil)
		}
	})
}
