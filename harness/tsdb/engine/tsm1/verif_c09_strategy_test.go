//go:build verif

package tsm1

// C09 - a compaction that fails on a damaged block, run the way the engine's compaction loop runs it
// (compactionStrategy.Apply: Compactor + error handling + FileStore replacement), leaves every original file in
// place and readable. TestVerifC09Compaction calls the Compactor directly and therefore never passes through
// the strategy's own failure handling.

import (
	"context"
	"fmt"
	"os"
	"path/filepath"
	"sort"
	"strings"
	"testing"

	"go.uber.org/zap"
	"pgregory.net/rapid"
	"verifkit"
)

func vC09SReadAll(fs *FileStore, key string) ([]string, error) {
	c := fs.KeyCursor(context.Background(), []byte(key), -1<<62, true)
	defer c.Close()
	var out []string
	buf := make([]FloatValue, 0, 1000)
	for {
		vals, err := c.ReadFloatBlock(&buf)
		if err != nil {
			return nil, err
		}
		if len(vals) == 0 {
			return out, nil
		}
		for _, v := range vals {
			out = append(out, fmt.Sprintf("%d=%v", v.UnixNano(), v.Value()))
		}
		c.Next()
	}
}

func TestVerifC09StrategyDamagedBlock(t *testing.T) {
	st := verifkit.For("C09", "TestVerifC09StrategyDamagedBlock",
		"2..4 generations of TSM files holding 2..5 float series (one block of 3..30 points per series and file; the ranges of consecutive generations overlap for a drawn subset of the series, so that the compaction has to decode them); the payload of one block of one series in one file is overwritten on disk (junk bytes, an impossible length, or an unknown block type; index intact); the group is compacted through compactionStrategy.Apply (fast or full), as the engine's compaction loop does. Oracle: whatever the strategy reports, every original file that the strategy did not replace by a successful compaction is still on disk byte for byte and in the file store, no temporary file is left, and every undamaged series reads exactly as before. non-trivial = the compaction failed; distinct = (generations, series, damaged file, damage kind, mode)")
	defer st.Flush()
	rapid.Check(t, func(rt *rapid.T) {
		dir, err := os.MkdirTemp("", "c09s")
		if err != nil {
			rt.Fatal(err)
		}
		defer os.RemoveAll(dir)
		ngen := rapid.IntRange(2, 4).Draw(rt, "generations")
		nkeys := rapid.IntRange(2, 5).Draw(rt, "series")
		var keys []string
		for k := 0; k < nkeys; k++ {
			keys = append(keys, fmt.Sprintf("cpu,host=%c#!~#value", 'A'+k))
		}
		victim := rapid.IntRange(0, nkeys-1).Draw(rt, "damagedSeries")
		var paths []string
		for g := 0; g < ngen; g++ {
			p := filepath.Join(dir, DefaultFormatFileName(g+1, 1)+"."+TSMFileExtension)
			fd, err := os.OpenFile(p, os.O_CREATE|os.O_RDWR|os.O_EXCL, 0666)
			if err != nil {
				rt.Fatal(err)
			}
			w, err := NewTSMWriter(fd)
			if err != nil {
				rt.Fatal(err)
			}
			for k, key := range keys {
				n := rapid.IntRange(3, 30).Draw(rt, "points")
				// generation g covers [g*100, g*100+n); overlapping series start 1..n points earlier
				from := int64(g * 100)
				if g > 0 && (k == victim || rapid.Bool().Draw(rt, "overlapsPrevious")) {
					from = int64((g-1)*100) + int64(rapid.IntRange(0, 2).Draw(rt, "overlapAt"))
				}
				var vs []Value
				for i := 0; i < n; i++ {
					vs = append(vs, NewFloatValue(from+int64(i), float64(g*1000+i)))
				}
				if err := w.Write([]byte(key), vs); err != nil {
					rt.Fatal(err)
				}
			}
			if err := w.WriteIndex(); err != nil {
				rt.Fatal(err)
			}
			if err := w.Close(); err != nil {
				rt.Fatal(err)
			}
			paths = append(paths, p)
		}
		// damage one block of the victim series
		dfile := rapid.IntRange(0, ngen-1).Draw(rt, "damagedFile")
		how := rapid.SampledFrom([]string{"junk", "junk", "len", "type"}).Draw(rt, "damage")
		{
			fd, err := os.Open(paths[dfile])
			if err != nil {
				rt.Fatal(err)
			}
			r, err := NewTSMReader(fd)
			if err != nil {
				rt.Fatal(err)
			}
			es := r.Entries([]byte(keys[victim]))
			r.Close()
			f, err := os.OpenFile(paths[dfile], os.O_RDWR, 0666)
			if err != nil {
				rt.Fatal(err)
			}
			off, size := es[0].Offset, int64(es[0].Size)
			switch how {
			case "junk": // keep the 4 byte checksum and the block type byte
				junk := make([]byte, size-5)
				for i := range junk {
					junk[i] = 0xff
				}
				_, err = f.WriteAt(junk, off+5)
			case "len":
				_, err = f.WriteAt([]byte{0xff, 0xff, 0xff, 0x7f}, off+5)
			default:
				_, err = f.WriteAt([]byte{0x55}, off+4)
			}
			if err != nil {
				rt.Fatal(err)
			}
			f.Sync()
			f.Close()
		}
		fs := NewFileStore(dir)
		if err := fs.Open(); err != nil {
			rt.Fatalf("harness: open file store: %v", err)
		}
		defer fs.Close()
		before := map[string][]string{}
		for k, key := range keys {
			if k == victim {
				continue
			}
			got, err := vC09SReadAll(fs, key)
			if err != nil {
				rt.Fatalf("harness: reading an undamaged series before the compaction: %v", err)
			}
			before[key] = got
		}
		dirBefore, err := vC09DirState(dir)
		if err != nil {
			rt.Fatal(err)
		}
		cp := NewCompactor()
		cp.Dir = dir
		cp.FileStore = fs
		cp.Open()
		defer cp.Close()
		fast := rapid.Bool().Draw(rt, "fast")
		var duration, active, success, failed int64
		s := &compactionStrategy{group: CompactionGroup(paths), fast: fast, level: 4, durationStat: &duration, activeStat: &active,
			successStat: &success, errorStat: &failed, logger: zap.NewNop(), compactor: cp, fileStore: fs, engine: &Engine{id: 1}}
		if !verifkit.Watch(vOpTimeout, s.Apply) {
			rt.Fatalf("%s compactionStrategy.Apply did not return (damage %s in file %d, fast=%v)", verifkit.Sig("compaction-hang"), how, dfile, fast)
		}
		desc := fmt.Sprintf("generations=%d series=%d damaged=%s block of %s in %s, fast=%v, success=%d failed=%d", ngen, nkeys, how, keys[victim], filepath.Base(paths[dfile]), fast, success, failed)
		if failed > 0 {
			after, err := vC09DirState(dir)
			if err != nil {
				rt.Fatal(err)
			}
			if d := vC09DirDiff(dirBefore, after); d != "" {
				rt.Fatalf("%s after a failed compaction the directory differs: %s (%s)", verifkit.Sig("failed-compaction-changed-files"), d, desc)
			}
			var inStore []string
			for _, f := range fs.Files() {
				inStore = append(inStore, f.Path())
			}
			sort.Strings(inStore)
			if strings.Join(inStore, ",") != strings.Join(paths, ",") {
				rt.Fatalf("%s after a failed compaction the file store holds %v, want the originals %v (%s)", verifkit.Sig("failed-compaction-dropped-file-from-store"), inStore, paths, desc)
			}
		}
		if tmp := vC09TmpFiles(dir); len(tmp) > 0 {
			rt.Fatalf("%s temporary files left: %v (%s)", verifkit.Sig("failed-compaction-left-tmp"), tmp, desc)
		}
		for key, want := range before {
			got, err := vC09SReadAll(fs, key)
			if err != nil {
				rt.Fatalf("%s undamaged series %s cannot be read after the compaction: %v (%s)", verifkit.Sig("read-error-after-compaction"), key, err, desc)
			}
			if strings.Join(got, " ") != strings.Join(want, " ") {
				rt.Fatalf("%s undamaged series %s reads differently after the compaction (%s)\nbefore %v\nafter  %v", verifkit.Sig("content-differs-after-failed-compaction"), key, desc, want, got)
			}
		}
		st.Case(failed > 0, fmt.Sprint(ngen, nkeys, dfile, how, fast), "damage:"+how, fmt.Sprintf("fast:%v", fast), fmt.Sprintf("failed:%v", failed > 0))
		if st.WantSample() {
			st.Sample(map[string]interface{}{"case": desc})
		} else {
			st.Sample(nil)
		}
	})
}
