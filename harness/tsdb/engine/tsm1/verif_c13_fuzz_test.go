//go:build verif

package tsm1

// Native fuzz targets of the thorough tier. The semantic oracle (the same vC13CheckBlock as in
// the rapid campaign) is inside the targets.

import (
	"encoding/binary"
	"fmt"
	"math"
	"testing"

	"github.com/golang/snappy"
	"verifkit"
)

// FuzzVerifC13Values interprets the fuzzer's bytes as a value sequence (structured fuzzing):
// 16 bytes per point = timestamp + value bits; kind selects the field type.
func FuzzVerifC13Values(f *testing.F) {
	mk := func(pairs ...uint64) []byte {
		b := make([]byte, 8*len(pairs))
		for i, p := range pairs {
			binary.BigEndian.PutUint64(b[8*i:], p)
		}
		return b
	}
	f.Add(uint8(0), mk(0, math.Float64bits(1.5), 10, math.Float64bits(1.5), 20, math.Float64bits(2.5)))
	f.Add(uint8(1), mk(0, 1, 1000, 2, 2000, 3, 3000, 4))
	f.Add(uint8(1), mk(0, 1<<63, 1, 1<<63-1, 2, 0))
	f.Add(uint8(2), mk(1<<63, math.MaxUint64, 1<<63-1, 0))
	f.Add(uint8(3), mk(0, 1, 1, 0, 2, 1, 3, 1, 4, 0, 5, 0, 6, 1, 7, 1, 8, 1))
	f.Add(uint8(4), mk(0, 3, 1, 0, 2, 70000))
	f.Add(uint8(1), mk(0, 0, 1<<60, 5, 1<<61, 10))
	f.Fuzz(func(t *testing.T, kind uint8, data []byte) {
		n := len(data) / 16
		if n == 0 {
			return
		}
		if n > 2000 {
			n = 2000
		}
		q := &vC13Seq{kind: []byte{'f', 'i', 'u', 'b', 's'}[int(kind)%5]}
		for k := 0; k < n; k++ {
			ts := int64(binary.BigEndian.Uint64(data[16*k:]))
			v := binary.BigEndian.Uint64(data[16*k+8:])
			q.ts = append(q.ts, ts)
			switch q.kind {
			case 'f':
				q.f = append(q.f, math.Float64frombits(vC13Finite(v)))
			case 'i':
				q.i = append(q.i, int64(v))
			case 'u':
				q.u = append(q.u, v)
			case 'b':
				q.b = append(q.b, v&1 == 1)
			case 's':
				l := int(v % 40)
				if l > len(data) {
					l = len(data)
				}
				q.s = append(q.s, string(data[:l]))
			}
		}
		if _, e := vC13CheckBlock(q, map[string]bool{}); e != nil {
			t.Fatalf("%s kind %c, %d values: %s", verifkit.Sig(e.sig), q.kind, n, e.msg)
		}
	})
}

// FuzzVerifC13DecodeFixpoint feeds arbitrary bytes to the block decoders. What a corrupt block
// does to a decoder is outside the property; but whenever the bytes decode without error to
// a sequence of the parser's domain, that sequence must round-trip through every encoder and
// decoder (decode . encode . decode is a fixpoint).
//
// The fuzzed bytes go through DecodeBlock, i.e. through the pooled iterator decoders.
// (A BooleanDecoder used to keep the error of a corrupt block and poison the pool
// for later valid blocks: repaired by 12220bd, regression test TestVerifC13KFBooleanDecoderStickyError.
// If that defect returns, this target fails with decode-error on a freshly encoded block.)
func FuzzVerifC13DecodeFixpoint(f *testing.F) {
	for _, q := range []*vC13Seq{
		{kind: 'f', ts: []int64{0, 10, 20, 35}, f: []float64{1, 1, 2.5, -0.0}},
		{kind: 'i', ts: []int64{0, 1000, 2000, 3000}, i: []int64{5, 5, 5, 5}},
		{kind: 'i', ts: []int64{1, 3, 1 << 61, 7}, i: []int64{math.MinInt64, math.MaxInt64, 0, 1}},
		{kind: 'u', ts: []int64{0, 1, 2}, u: []uint64{0, math.MaxUint64, 7}},
		{kind: 'b', ts: []int64{0, 1, 2, 3, 4, 5, 6, 7, 8}, b: []bool{true, false, true, true, false, false, false, true, true}},
		{kind: 's', ts: []int64{0, 1}, s: []string{"", "hello"}},
	} {
		if b, err := q.values().Encode(nil); err == nil {
			f.Add(append([]byte(nil), b...))
		}
	}
	f.Fuzz(func(t *testing.T, blk []byte) {
		if len(blk) < 2 || len(blk) > 1<<16 || !vC13SaneBlock(blk) {
			return
		}
		q := &vC13Seq{}
		var err error
		var vals []Value
		func() {
			defer func() {
				if r := recover(); r != nil {
					err = errPanicked
				}
			}()
			vals, err = DecodeBlock(blk, nil)
		}()
		if err != nil || len(vals) == 0 || len(vals) > 5000 {
			return
		}
		for _, v := range vals {
			q.ts = append(q.ts, v.UnixNano())
			switch x := v.Value().(type) {
			case float64:
				q.kind, q.f = 'f', append(q.f, x)
			case int64:
				q.kind, q.i = 'i', append(q.i, x)
			case uint64:
				q.kind, q.u = 'u', append(q.u, x)
			case bool:
				q.kind, q.b = 'b', append(q.b, x)
			case string:
				q.kind, q.s = 's', append(q.s, x)
			}
		}
		n := len(q.ts)
		if err != nil || n == 0 || n > 5000 || len(q.f)+len(q.i)+len(q.u)+len(q.b)+len(q.s) != n {
			return
		}
		for _, x := range q.f {
			if math.IsNaN(x) || math.IsInf(x, 0) {
				return // outside the parser's domain
			}
		}
		if _, e := vC13CheckBlock(q, map[string]bool{}); e != nil {
			t.Fatalf("%s values decoded from fuzzed block, kind %c, %d values: %s", verifkit.Sig(e.sig), q.kind, n, e.msg)
		}
	})
}

// vC13SaneBlock keeps the fuzzer away from corrupt headers that make the decoders allocate
// gigabytes (a run-length count or a snappy length taken from the bytes): that would kill the
// fuzz worker, and what a corrupt block does to a decoder is outside the property.
func vC13SaneBlock(blk []byte) (sane bool) {
	// unpackBlock itself panics on a timestamp-section length that overflows int (observation: a corrupt block
	// header, outside this property) - such a block is simply not sane
	defer func() {
		if recover() != nil {
			sane = false
		}
	}()
	tb, vb, err := unpackBlock(blk[1:])
	if err != nil || len(tb) == 0 || len(vb) == 0 {
		return false
	}
	rleCount := func(b []byte) (uint64, bool) { // header byte, 8 bytes first value, uvarint delta, uvarint count
		if len(b) < 10 {
			return 0, false
		}
		_, n := binary.Uvarint(b[9:])
		if n <= 0 {
			return 0, false
		}
		c, m := binary.Uvarint(b[9+n:])
		return c, m > 0
	}
	if tb[0]>>4 == timeCompressedRLE {
		if c, ok := rleCount(tb); !ok || c > 10000 {
			return false
		}
	}
	switch blk[0] {
	case BlockInteger, BlockUnsigned:
		if vb[0]>>4 == intCompressedRLE {
			if c, ok := rleCount(vb); !ok || c > 10000 {
				return false
			}
		}
	case BlockString:
		if n, err := snappy.DecodedLen(vb[1:]); err != nil || n > 1<<20 {
			return false
		}
	}
	return true
}

type vC13PanicErr struct{}

func (vC13PanicErr) Error() string { return "decoder panicked on (or does not know) a corrupt block" }

var errPanicked error = vC13PanicErr{}

// TestVerifC13KFBooleanDecoderStickyError is the directed campaign for the known finding: a
// BooleanDecoder that once saw a corrupt value section keeps its error, so the next, valid
// block decoded with the same (pooled) decoder is reported as corrupt. The test uses its own
// decoder value, never the pool.
func TestVerifC13KFBooleanDecoderStickyError(t *testing.T) {
	st := verifkit.For("C13", "TestVerifC13KFBooleanDecoderStickyError", "directed: one BooleanDecoder is given a corrupt value section (count varint unterminated) and then the encoding of a valid boolean sequence; reproduced when the valid sequence no longer decodes")
	defer st.Flush()
	for _, n := range []int{1, 8, 9, 24} {
		enc := NewBooleanEncoder(n)
		want := make([]bool, n)
		for i := range want {
			want[i] = i%3 == 0
			enc.Write(want[i])
		}
		valid, err := enc.Bytes()
		if err != nil {
			t.Fatalf("%s BooleanEncoder.Bytes: %v", verifkit.Sig("encode-error"), err)
		}
		var d BooleanDecoder
		d.SetBytes([]byte{0x10, 0x80}) // header + a varint that never ends
		firstErr := d.Error()
		d.SetBytes(valid)
		var got []bool
		for d.Next() {
			got = append(got, d.Read())
		}
		reproduced := ""
		if firstErr != nil && (d.Error() != nil || len(got) != n) {
			reproduced = fmt.Sprintf("after a corrupt block (%v) a valid block of %d booleans decodes to %d values, err %v", firstErr, n, len(got), d.Error())
		}
		st.Case(true, fmt.Sprint(n), "kf-input")
		if reproduced != "" {
			st.KnownReproduced("boolean-decoder-error-sticks-across-blocks", reproduced)
			st.Class("kf-reproduced", 1)
		}
		st.Sample(map[string]interface{}{"n": n, "reproduced": reproduced})
	}
}
