//go:build verif

package tsm1

// Native fuzz targets of the thorough tier. The semantic oracle (the same vC13CheckBlock as in
// the rapid campaign) is inside the targets.

import (
	"encoding/binary"
	"math"
	"testing"

	"verifkit"
)

// FuzzVerifC13Values interprets the fuzzer's bytes as a value sequence (structured fuzzing):
// 16 bytes per point = timestamp + value bits; kind selects the field type.
func FuzzVerifC13Values(f *testing.F) {
	mk := func(pairs ...uint64) []byte {
		b := make([]byte, 8*len(pairs))
		for i, p := range pairs {
			binary.BigEndian.PutUint64(b[8*i:], p)
		}
		return b
	}
	f.Add(uint8(0), mk(0, math.Float64bits(1.5), 10, math.Float64bits(1.5), 20, math.Float64bits(2.5)))
	f.Add(uint8(1), mk(0, 1, 1000, 2, 2000, 3, 3000, 4))
	f.Add(uint8(1), mk(0, 1<<63, 1, 1<<63-1, 2, 0))
	f.Add(uint8(2), mk(1<<63, math.MaxUint64, 1<<63-1, 0))
	f.Add(uint8(3), mk(0, 1, 1, 0, 2, 1, 3, 1, 4, 0, 5, 0, 6, 1, 7, 1, 8, 1))
	f.Add(uint8(4), mk(0, 3, 1, 0, 2, 70000))
	f.Add(uint8(1), mk(0, 0, 1<<60, 5, 1<<61, 10))
	f.Fuzz(func(t *testing.T, kind uint8, data []byte) {
		n := len(data) / 16
		if n == 0 {
			return
		}
		if n > 2000 {
			n = 2000
		}
		q := &vC13Seq{kind: []byte{'f', 'i', 'u', 'b', 's'}[int(kind)%5]}
		for k := 0; k < n; k++ {
			ts := int64(binary.BigEndian.Uint64(data[16*k:]))
			v := binary.BigEndian.Uint64(data[16*k+8:])
			q.ts = append(q.ts, ts)
			switch q.kind {
			case 'f':
				q.f = append(q.f, math.Float64frombits(vC13Finite(v)))
			case 'i':
				q.i = append(q.i, int64(v))
			case 'u':
				q.u = append(q.u, v)
			case 'b':
				q.b = append(q.b, v&1 == 1)
			case 's':
				l := int(v % 40)
				if l > len(data) {
					l = len(data)
				}
				q.s = append(q.s, string(data[:l]))
			}
		}
		if _, e := vC13CheckBlock(q, map[string]bool{}); e != nil {
			t.Fatalf("%s kind %c, %d values: %s", verifkit.Sig(e.sig), q.kind, n, e.msg)
		}
	})
}

// FuzzVerifC13DecodeFixpoint feeds arbitrary bytes to the block decoder. What a corrupt block
// does to the decoder is outside the property; but whenever the bytes decode without error to
// a sequence of the parser's domain, that sequence must round-trip through every encoder and
// decoder (decode . encode . decode is a fixpoint).
func FuzzVerifC13DecodeFixpoint(f *testing.F) {
	for _, q := range []*vC13Seq{
		{kind: 'f', ts: []int64{0, 10, 20, 35}, f: []float64{1, 1, 2.5, -0.0}},
		{kind: 'i', ts: []int64{0, 1000, 2000, 3000}, i: []int64{5, 5, 5, 5}},
		{kind: 'i', ts: []int64{1, 3, 1 << 61, 7}, i: []int64{math.MinInt64, math.MaxInt64, 0, 1}},
		{kind: 'u', ts: []int64{0, 1, 2}, u: []uint64{0, math.MaxUint64, 7}},
		{kind: 'b', ts: []int64{0, 1, 2, 3, 4, 5, 6, 7, 8}, b: []bool{true, false, true, true, false, false, false, true, true}},
		{kind: 's', ts: []int64{0, 1}, s: []string{"", "hello"}},
	} {
		if b, err := q.values().Encode(nil); err == nil {
			f.Add(append([]byte(nil), b...))
		}
	}
	f.Fuzz(func(t *testing.T, blk []byte) {
		if len(blk) > 1<<16 {
			return
		}
		var vals []Value
		var err error
		func() {
			defer func() {
				if r := recover(); r != nil {
					err = errPanicked
				}
			}()
			vals, err = DecodeBlock(blk, nil)
		}()
		if err != nil || len(vals) == 0 || len(vals) > 5000 {
			return
		}
		q := &vC13Seq{}
		for _, v := range vals {
			q.ts = append(q.ts, v.UnixNano())
			switch x := v.Value().(type) {
			case float64:
				if math.IsNaN(x) || math.IsInf(x, 0) {
					return // outside the parser's domain
				}
				q.kind, q.f = 'f', append(q.f, x)
			case int64:
				q.kind, q.i = 'i', append(q.i, x)
			case uint64:
				q.kind, q.u = 'u', append(q.u, x)
			case bool:
				q.kind, q.b = 'b', append(q.b, x)
			case string:
				q.kind, q.s = 's', append(q.s, x)
			}
		}
		if _, e := vC13CheckBlock(q, map[string]bool{}); e != nil {
			t.Fatalf("%s values decoded from fuzzed block, kind %c, %d values: %s", verifkit.Sig(e.sig), q.kind, len(vals), e.msg)
		}
	})
}

type vC13PanicErr struct{}

func (vC13PanicErr) Error() string { return "decoder panicked on a corrupt block" }

var errPanicked error = vC13PanicErr{}
