//go:build verif

package tsdb_test

// Bed I (DESIGN.md section 3): two tsdb.Stores, one with the inmem index and one with the tsi1
// index, driven in lock-step, plus a set model of the live series of every shard.
//
// Everything here is harness code; nothing of it is shared with the code under test except the
// public API it calls.

import (
	"context"
	"fmt"
	"os"
	"path/filepath"
	"regexp"
	"sort"
	"strings"
	"time"

	"github.com/influxdata/influxdb/models"
	"github.com/influxdata/influxdb/toml"
	"github.com/influxdata/influxdb/tsdb"
	"github.com/influxdata/influxdb/tsdb/engine/tsm1"
	"github.com/influxdata/influxdb/tsdb/index/tsi1"
	"github.com/influxdata/influxql"
	"verifkit"
)

const (
	vDualDB = "db"
	vDualRP = "rp"
	// every shard i (1-based) owns the time range [ (i-1)*vDualShardSpan , i*vDualShardSpan )
	vDualShardSpan = int64(1000)
)

var vDualKinds = [2]string{"inmem", "tsi1"}

// vDualCfg is the generated configuration of one case.
type vDualCfg struct {
	NShards    int
	LogSize    int    // tsi1 MaxIndexLogFileSize
	Partitions uint64 // tsi1.DefaultPartitionN (1, 2 or 8)
	CacheSize  int    // tsi1 series-id-set cache
}

type vDualBed struct {
	cfg    vDualCfg
	root   string
	dirs   [2]string
	stores [2]*tsdb.Store
	// levels seen in tsi1 partitions: file name -> true
	tsiFiles map[string]bool
	// labels describing tsi1 compactions that were observed (new index files per level)
	tsiEvents map[string]int
	maxLevel  int
}

func vDualOpenStore(dir, kind string, cfg vDualCfg) (*tsdb.Store, error) {
	s := tsdb.NewStore(filepath.Join(dir, "data"))
	s.EngineOptions.Config.Dir = filepath.Join(dir, "data")
	s.EngineOptions.Config.WALDir = filepath.Join(dir, "wal")
	s.EngineOptions.IndexVersion = kind
	s.EngineOptions.Config.MaxIndexLogFileSize = toml.Size(cfg.LogSize)
	s.EngineOptions.Config.SeriesIDSetCacheSize = cfg.CacheSize
	s.EngineOptions.CompactionDisabled = true
	s.EngineOptions.MonitorDisabled = true
	if err := s.Open(); err != nil {
		return nil, err
	}
	return s, nil
}

func vDualNewBed(cfg vDualCfg) (*vDualBed, error) {
	root, err := os.MkdirTemp("", "c14")
	if err != nil {
		return nil, err
	}
	b := &vDualBed{cfg: cfg, root: root, tsiFiles: map[string]bool{}, tsiEvents: map[string]int{}}
	tsi1.DefaultPartitionN = cfg.Partitions
	for i, kind := range vDualKinds {
		b.dirs[i] = filepath.Join(root, kind)
		s, err := vDualOpenStore(b.dirs[i], kind, cfg)
		if err != nil {
			b.Close()
			return nil, err
		}
		b.stores[i] = s
		for sh := 1; sh <= cfg.NShards; sh++ {
			if err := s.CreateShard(vDualDB, vDualRP, uint64(sh), true); err != nil {
				b.Close()
				return nil, err
			}
			// make the 1 s level-compaction ticker inert (it is started by the first delete)
			p := filepath.Join(s.Shard(uint64(sh)).Path(), tsm1.DoNotCompactFile)
			if err := os.WriteFile(p, nil, 0644); err != nil {
				b.Close()
				return nil, err
			}
		}
	}
	return b, nil
}

func (b *vDualBed) Close() {
	for i := range b.stores {
		if b.stores[i] != nil {
			b.stores[i].Close()
			b.stores[i] = nil
		}
	}
	os.RemoveAll(b.root)
}

func (b *vDualBed) shardIDs() []uint64 {
	ids := make([]uint64, 0, b.cfg.NShards)
	for sh := 1; sh <= b.cfg.NShards; sh++ {
		ids = append(ids, uint64(sh))
	}
	return ids
}

// Reopen closes and reopens both stores on their directories.
func (b *vDualBed) Reopen() error {
	tsi1.DefaultPartitionN = b.cfg.Partitions
	for i, kind := range vDualKinds {
		if err := b.stores[i].Close(); err != nil {
			return fmt.Errorf("%s close: %v", kind, err)
		}
		b.stores[i] = nil
		s, err := vDualOpenStore(b.dirs[i], kind, b.cfg)
		if err != nil {
			return fmt.Errorf("%s open: %v", kind, err)
		}
		b.stores[i] = s
		for _, id := range b.shardIDs() {
			if s.Shard(id) == nil {
				return fmt.Errorf("%s: shard %d missing after reopen", kind, id)
			}
		}
	}
	return nil
}

func (b *vDualBed) tsiIndex(sh uint64) *tsi1.Index {
	ix, err := b.stores[1].Shard(sh).Index()
	if err != nil {
		return nil
	}
	ti, _ := ix.(*tsi1.Index)
	return ti
}

// tsiFileList lists the files of every tsi1 partition of every shard (shard/partition/name).
func (b *vDualBed) tsiFileList() []string {
	var out []string
	for _, sh := range b.shardIDs() {
		ti := b.tsiIndex(sh)
		if ti == nil {
			continue
		}
		for p := 0; p < int(ti.PartitionN); p++ {
			part := ti.PartitionAt(p)
			fs, err := part.RetainFileSet()
			if err != nil {
				continue
			}
			for _, f := range fs.Files() {
				out = append(out, fmt.Sprintf("%d/%d/%s", sh, p, filepath.Base(f.Path())))
			}
			fs.Release()
		}
	}
	sort.Strings(out)
	return out
}

// Quiesce drives the tsi1 index compactions of every shard to a fixed point so that no index
// compaction is in flight when the single-threaded history issues its next step (DESIGN 2.3).
// Partition.Wait() alone leaves a window (the compaction goroutine decrements the counter and
// only then asks for follow-on compactions), so the harness asks for the follow-on compactions
// itself and repeats until the file set no longer changes.
func (b *vDualBed) Quiesce() {
	prev := ""
	for round := 0; round < 64; round++ {
		for _, sh := range b.shardIDs() {
			if ti := b.tsiIndex(sh); ti != nil {
				ti.Compact()
				ti.Wait()
			}
		}
		l := b.tsiFileList()
		cur := strings.Join(l, ",")
		if cur == prev {
			b.observeFiles(l)
			return
		}
		prev = cur
	}
}

var vDualFileRe = regexp.MustCompile(`L(\d+)-(\d+)\.(tsi|tsl)$`)

func (b *vDualBed) observeFiles(l []string) {
	for _, f := range l {
		if b.tsiFiles[f] {
			continue
		}
		b.tsiFiles[f] = true
		m := vDualFileRe.FindStringSubmatch(f)
		if m == nil {
			continue
		}
		lvl := 0
		fmt.Sscanf(m[1], "%d", &lvl)
		if m[3] == "tsi" {
			b.tsiEvents[fmt.Sprintf("tsi:new-file-L%d", lvl)]++
			if lvl > b.maxLevel {
				b.maxLevel = lvl
			}
		}
	}
}

// Write writes the same points to shard sh of both stores, then quiesces the tsi1 index.
func (b *vDualBed) Write(sh uint64, pts []models.Point) error {
	for i, kind := range vDualKinds {
		if err := b.stores[i].WriteToShard(sh, pts); err != nil {
			return fmt.Errorf("%s: %v", kind, err)
		}
	}
	b.Quiesce()
	return nil
}

// vDualDeleteTimeout is the watchdog for deletes (a delete can deadlock against an index compaction).
const vDualDeleteTimeout = 60 * time.Second

// DeleteSeries runs Store.DeleteSeries on both stores under a watchdog. hung is true if a store
// did not come back.
func (b *vDualBed) DeleteSeries(names []string, cond influxql.Expr) (err error, hung bool) {
	b.Quiesce()
	for i, kind := range vDualKinds {
		var srcs []influxql.Source
		for _, n := range names {
			srcs = append(srcs, &influxql.Measurement{Name: n})
		}
		var e error
		s := b.stores[i]
		c := influxql.CloneExpr(cond)
		if !verifkit.Watch(vDualDeleteTimeout, func() { e = s.DeleteSeries(vDualDB, srcs, c) }) {
			b.stores[i] = nil // never touch the wedged store again
			return fmt.Errorf("%s: DeleteSeries did not return within %v", kind, vDualDeleteTimeout), true
		}
		if e != nil {
			return fmt.Errorf("%s: %v", kind, e), false
		}
	}
	b.Quiesce()
	return nil, false
}

// DeleteMeasurement runs Store.DeleteMeasurement on both stores under a watchdog.
func (b *vDualBed) DeleteMeasurement(name string) (err error, hung bool) {
	b.Quiesce()
	for i, kind := range vDualKinds {
		var e error
		s := b.stores[i]
		if !verifkit.Watch(vDualDeleteTimeout, func() { e = s.DeleteMeasurement(vDualDB, name) }) {
			b.stores[i] = nil
			return fmt.Errorf("%s: DeleteMeasurement did not return within %v", kind, vDualDeleteTimeout), true
		}
		if e != nil {
			return fmt.Errorf("%s: %v", kind, e), false
		}
	}
	b.Quiesce()
	return nil, false
}

// Snapshot writes the cache of shard sh to a TSM file in both stores.
func (b *vDualBed) Snapshot(sh uint64) error {
	for i, kind := range vDualKinds {
		e, err := b.stores[i].Shard(sh).Engine()
		if err != nil {
			return fmt.Errorf("%s: %v", kind, err)
		}
		te, ok := e.(*tsm1.Engine)
		if !ok {
			return fmt.Errorf("%s: engine is %T", kind, e)
		}
		if err := te.WriteSnapshot(); err != nil {
			return fmt.Errorf("%s: WriteSnapshot: %v", kind, err)
		}
	}
	return nil
}

// CompactSeriesFile runs the series-partition compactor (the one the background goroutine of
// SeriesPartition.CreateSeriesListIfNotExists runs when CompactThreshold is crossed) on every
// partition of the series file of both stores, synchronously. It returns the number of
// partitions whose in-memory part was non-empty before and empty afterwards.
func (b *vDualBed) CompactSeriesFile() (int, error) {
	n := 0
	for i, kind := range vDualKinds {
		sf, err := b.stores[i].Shard(1).SeriesFile()
		if err != nil {
			return n, fmt.Errorf("%s: %v", kind, err)
		}
		for _, p := range sf.Partitions() {
			before := p.Index().InMemCount()
			if err := tsdb.NewSeriesPartitionCompactor().Compact(p); err != nil {
				return n, fmt.Errorf("%s: series partition %d compaction: %v", kind, p.ID(), err)
			}
			if before > 0 && p.Index().InMemCount() == 0 {
				n++
			}
		}
	}
	return n, nil
}

// ---------------------------------------------------------------------------------------------
// predicates

// vDualPred is a tag predicate: a comparison, or AND/OR of two predicates.
type vDualPred struct {
	Op   string // "cmp", "AND", "OR"
	Key  string
	Cmp  string // "=", "!=", "=~", "!~"
	Val  string // literal or regex source
	L, R *vDualPred
	re   *regexp.Regexp
}

func (p *vDualPred) String() string {
	if p == nil {
		return ""
	}
	switch p.Op {
	case "cmp":
		if p.Cmp == "=~" || p.Cmp == "!~" {
			return fmt.Sprintf("%s %s /%s/", p.Key, p.Cmp, p.Val)
		}
		return fmt.Sprintf("%s %s '%s'", p.Key, p.Cmp, p.Val)
	default:
		return fmt.Sprintf("(%s) %s (%s)", p.L.String(), p.Op, p.R.String())
	}
}

func (p *vDualPred) regex() *regexp.Regexp {
	if p.re == nil {
		p.re = regexp.MustCompile(p.Val)
	}
	return p.re
}

// Eval evaluates the predicate on a series the InfluxQL way: a missing tag is the empty string.
func (p *vDualPred) Eval(tags map[string]string) bool {
	switch p.Op {
	case "cmp":
		v := tags[p.Key]
		switch p.Cmp {
		case "=":
			return v == p.Val
		case "!=":
			return v != p.Val
		case "=~":
			return p.regex().MatchString(v)
		default:
			return !p.regex().MatchString(v)
		}
	case "AND":
		return p.L.Eval(tags) && p.R.Eval(tags)
	default:
		return p.L.Eval(tags) || p.R.Eval(tags)
	}
}

// Ops lists the comparison operators used in the predicate.
func (p *vDualPred) Ops(into map[string]bool) {
	if p == nil {
		return
	}
	if p.Op == "cmp" {
		into[p.Cmp] = true
		return
	}
	into[p.Op] = true
	p.L.Ops(into)
	p.R.Ops(into)
}

func (p *vDualPred) Expr() influxql.Expr {
	if p == nil {
		return nil
	}
	return influxql.MustParseExpr(p.String())
}

// ---------------------------------------------------------------------------------------------
// model

// vDualShardModel is the set model of one shard: live series key -> timestamps that hold a point.
type vDualShardModel struct {
	live map[string]map[int64]bool
	// ever[m] = "k=v" pairs carried by a series of measurement m created in this shard since m
	// last had no live series here; old[m] = the pairs of earlier incarnations of m (m was
	// dropped as a whole in between). Both are used only to bound what the known tsi1
	// leftovers may show in unfiltered tag key / tag value listings.
	ever map[string]map[string]bool
	old  map[string]map[string]bool
	// gone = series that left this shard and were not re-created in it since
	gone map[string]bool
}

type vDualModel struct {
	shards map[uint64]*vDualShardModel
}

func vDualNewModel(ids []uint64) *vDualModel {
	m := &vDualModel{shards: map[uint64]*vDualShardModel{}}
	for _, id := range ids {
		m.shards[id] = &vDualShardModel{live: map[string]map[int64]bool{}, ever: map[string]map[string]bool{},
			old: map[string]map[string]bool{}, gone: map[string]bool{}}
	}
	return m
}

// vDualKeyParts splits a series key into measurement and tags.
func vDualKeyParts(key string) (string, map[string]string) {
	name, tags := models.ParseKey([]byte(key))
	m := map[string]string{}
	for _, t := range tags {
		m[string(t.Key)] = string(t.Value)
	}
	return name, m
}

func (sm *vDualShardModel) add(key string, ts int64) (created bool) {
	if sm.live[key] == nil {
		sm.live[key] = map[int64]bool{}
		created = true
		delete(sm.gone, key)
		name, tags := vDualKeyParts(key)
		if sm.ever[name] == nil {
			sm.ever[name] = map[string]bool{}
		}
		for k, v := range tags {
			sm.ever[name][k+"="+v] = true
		}
	}
	sm.live[key][ts] = true
	return created
}

// deleteRange removes the points of the matching series in [lo,hi]; it returns the keys of the
// series that lost their last point (and therefore left the index).
func (sm *vDualShardModel) deleteRange(match func(name string, tags map[string]string) bool, lo, hi int64) (gone []string, touched int) {
	for key, tss := range sm.live {
		name, tags := vDualKeyParts(key)
		if !match(name, tags) {
			continue
		}
		touched++
		for ts := range tss {
			if ts >= lo && ts <= hi {
				delete(tss, ts)
			}
		}
		if len(tss) == 0 {
			delete(sm.live, key)
			sm.gone[key] = true
			gone = append(gone, key)
		}
	}
	sort.Strings(gone)
	// a measurement without live series is dropped as a whole
	liveM := map[string]bool{}
	for key := range sm.live {
		n, _ := vDualKeyParts(key)
		liveM[n] = true
	}
	for n, ps := range sm.ever {
		if !liveM[n] {
			if sm.old[n] == nil {
				sm.old[n] = map[string]bool{}
			}
			for p := range ps {
				sm.old[n][p] = true
			}
			delete(sm.ever, n)
		}
	}
	return gone, touched
}

// vDualView is a flattened set of live series (of one shard, or of the whole database) with the
// derived listings.
type vDualView struct {
	keys []string                     // sorted live series keys
	tags map[string]map[string]string // key -> tags (live and ghost series)
	byM  map[string][]string          // measurement -> live keys
	// known-finding bounds (tsi1 only):
	linger    map[string]map[string]bool // measurement -> "k=v" pairs whose last series was dropped while the measurement stayed
	lingerOld map[string]map[string]bool // measurement -> "k=v" pairs of an earlier incarnation of a re-created measurement
	ghosts    map[string][]string        // measurement -> series dropped from this (single) shard that still live in another shard
}

func (m *vDualModel) view(ids []uint64) *vDualView {
	v := &vDualView{tags: map[string]map[string]string{}, byM: map[string][]string{}, linger: map[string]map[string]bool{},
		lingerOld: map[string]map[string]bool{}, ghosts: map[string][]string{}}
	seen := map[string]bool{}
	for _, id := range ids {
		for key := range m.shards[id].live {
			if !seen[key] {
				seen[key] = true
				v.keys = append(v.keys, key)
			}
		}
	}
	sort.Strings(v.keys)
	livePairs := map[string]map[string]bool{}
	for _, key := range v.keys {
		n, t := vDualKeyParts(key)
		v.tags[key] = t
		v.byM[n] = append(v.byM[n], key)
		if livePairs[n] == nil {
			livePairs[n] = map[string]bool{}
		}
		for k, val := range t {
			livePairs[n][k+"="+val] = true
		}
	}
	add := func(dst map[string]map[string]bool, n, p string) {
		if dst[n] == nil {
			dst[n] = map[string]bool{}
		}
		dst[n][p] = true
	}
	for _, id := range ids {
		for n, pairs := range m.shards[id].ever {
			for p := range pairs {
				if !livePairs[n][p] {
					add(v.linger, n, p)
				}
			}
		}
		for n, pairs := range m.shards[id].old {
			for p := range pairs {
				if !livePairs[n][p] && !v.linger[n][p] {
					add(v.lingerOld, n, p)
				}
			}
		}
	}
	if len(ids) == 1 {
		var gk []string
		for key := range m.shards[ids[0]].gone {
			for oid, o := range m.shards {
				if oid != ids[0] && o.live[key] != nil {
					gk = append(gk, key)
					break
				}
			}
		}
		sort.Strings(gk)
		for _, key := range gk {
			n, t := vDualKeyParts(key)
			v.tags[key] = t
			v.ghosts[n] = append(v.ghosts[n], key)
		}
	}
	return v
}

func (v *vDualView) measurements() []string {
	var out []string
	for n := range v.byM {
		out = append(out, n)
	}
	sort.Strings(out)
	return out
}

func (v *vDualView) hasGhosts() bool { return len(v.ghosts) > 0 }

// series returns the live series keys of measurement name matching p (nil = all); with ghosts
// the series dropped from this shard only are included as well.
func (v *vDualView) series(name string, p *vDualPred, ghosts bool) []string {
	var out []string
	src := v.byM[name]
	if ghosts {
		src = append(append([]string{}, src...), v.ghosts[name]...)
		sort.Strings(src)
	}
	for _, k := range src {
		if p == nil || p.Eval(v.tags[k]) {
			out = append(out, k)
		}
	}
	return out
}

// pairs returns the sorted "m k v" triples carried by live series (and ghosts, if asked for)
// matching p whose key passes keyOK.
func (v *vDualView) pairs(p *vDualPred, nameOK, keyOK func(string) bool, ghosts bool) []string {
	set := map[string]bool{}
	ms := map[string]bool{}
	for n := range v.byM {
		ms[n] = true
	}
	if ghosts {
		for n := range v.ghosts {
			ms[n] = true
		}
	}
	for n := range ms {
		if nameOK != nil && !nameOK(n) {
			continue
		}
		for _, k := range v.series(n, p, ghosts) {
			for tk, tv := range v.tags[k] {
				if keyOK == nil || keyOK(tk) {
					set[n+" "+tk+" "+tv] = true
				}
			}
		}
	}
	return vDualSorted(set)
}

// lingerPairs returns the "m k v" triples the known tsi1 leftovers may add to an unfiltered
// listing: first those of the current incarnation of a measurement, then those of earlier ones.
func (v *vDualView) lingerPairs(nameOK, keyOK func(string) bool) (cur, old map[string]bool) {
	cur, old = map[string]bool{}, map[string]bool{}
	for i, src := range []map[string]map[string]bool{v.linger, v.lingerOld} {
		for n, ps := range src {
			if _, ok := v.byM[n]; !ok && len(v.ghosts[n]) == 0 {
				continue
			}
			if nameOK != nil && !nameOK(n) {
				continue
			}
			for p := range ps {
				j := strings.IndexByte(p, '=')
				if keyOK == nil || keyOK(p[:j]) {
					if i == 0 {
						cur[n+" "+p[:j]+" "+p[j+1:]] = true
					} else {
						old[n+" "+p[:j]+" "+p[j+1:]] = true
					}
				}
			}
		}
	}
	return cur, old
}

func vDualSorted(set map[string]bool) []string {
	out := make([]string, 0, len(set))
	for k := range set {
		out = append(out, k)
	}
	sort.Strings(out)
	return out
}

// vDualTri is a three-valued truth value (the third value appears only where the known tsi1
// lingering makes the answer of the tsi1 store unspecified).
type vDualTri int

const (
	vDualFalse vDualTri = iota
	vDualTrue
	vDualUnknown
)

// measurementMatches is the measurement-level semantics of SHOW MEASUREMENTS WHERE <tag cond>
// as implemented for both index types by IndexSet.measurementNamesByTagFilter: a comparison
// selects a measurement iff the measurement has the tag key and (some value of the key
// satisfies the positive comparison) == (the operator is = or =~); AND/OR combine name sets.
// With lingering=true the answer is vDualUnknown where a lingering tag value of that key exists.
func (v *vDualView) measurementMatches(name string, p *vDualPred, lingering bool) vDualTri {
	switch p.Op {
	case "cmp":
		if lingering {
			for _, src := range []map[string]bool{v.linger[name], v.lingerOld[name]} {
				for lp := range src {
					if strings.HasPrefix(lp, p.Key+"=") {
						return vDualUnknown
					}
				}
			}
		}
		has, match := false, false
		for _, k := range v.byM[name] {
			val, ok := v.tags[k][p.Key]
			if !ok {
				continue
			}
			has = true
			switch p.Cmp {
			case "=", "!=":
				if val == p.Val {
					match = true
				}
			default:
				if p.regex().MatchString(val) {
					match = true
				}
			}
		}
		if !has {
			return vDualFalse
		}
		if match == (p.Cmp == "=" || p.Cmp == "=~") {
			return vDualTrue
		}
		return vDualFalse
	case "AND":
		l, r := v.measurementMatches(name, p.L, lingering), v.measurementMatches(name, p.R, lingering)
		if l == vDualFalse || r == vDualFalse {
			return vDualFalse
		}
		if l == vDualTrue && r == vDualTrue {
			return vDualTrue
		}
		return vDualUnknown
	default:
		l, r := v.measurementMatches(name, p.L, lingering), v.measurementMatches(name, p.R, lingering)
		if l == vDualTrue || r == vDualTrue {
			return vDualTrue
		}
		if l == vDualFalse && r == vDualFalse {
			return vDualFalse
		}
		return vDualUnknown
	}
}

// ---------------------------------------------------------------------------------------------
// observations

func (b *vDualBed) indexSet(i int, ids []uint64) (tsdb.IndexSet, error) {
	is := tsdb.IndexSet{}
	for _, id := range ids {
		sh := b.stores[i].Shard(id)
		if sh == nil {
			return is, fmt.Errorf("shard %d missing", id)
		}
		if is.SeriesFile == nil {
			sf, err := sh.SeriesFile()
			if err != nil {
				return is, err
			}
			is.SeriesFile = sf
		}
		ix, err := sh.Index()
		if err != nil {
			return is, err
		}
		is.Indexes = append(is.Indexes, ix)
	}
	return is.DedupeInmemIndexes(), nil
}

// SeriesByExpr lists the series keys IndexSet.MeasurementSeriesByExprIterator yields.
func (b *vDualBed) SeriesByExpr(i int, ids []uint64, name string, p *vDualPred) ([]string, error) {
	is, err := b.indexSet(i, ids)
	if err != nil {
		return nil, err
	}
	itr, err := is.MeasurementSeriesByExprIterator([]byte(name), p.Expr())
	if err != nil {
		return nil, err
	}
	if itr == nil {
		return nil, nil
	}
	defer itr.Close()
	var out []string
	for {
		e, err := itr.Next()
		if err != nil {
			return nil, err
		}
		if e.SeriesID == 0 {
			break
		}
		if e.Expr != nil {
			if lit, ok := e.Expr.(*influxql.BooleanLiteral); !ok || !lit.Val {
				continue
			}
		}
		kb := is.SeriesFile.SeriesKey(e.SeriesID)
		if kb == nil {
			out = append(out, fmt.Sprintf("<id %d without key>", e.SeriesID))
			continue
		}
		n, t := tsdb.ParseSeriesKey(kb)
		out = append(out, string(models.MakeKey(n, t)))
	}
	sort.Strings(out)
	return out, nil
}

// ShardSeries lists the series keys of the shard-local series id set and Shard.SeriesN.
func (b *vDualBed) ShardSeries(i int, id uint64) ([]string, int64, error) {
	sh := b.stores[i].Shard(id)
	ix, err := sh.Index()
	if err != nil {
		return nil, 0, err
	}
	sf, err := sh.SeriesFile()
	if err != nil {
		return nil, 0, err
	}
	var out []string
	ix.SeriesIDSet().ForEach(func(sid uint64) {
		kb := sf.SeriesKey(sid)
		if kb == nil {
			out = append(out, fmt.Sprintf("<id %d without key>", sid))
			return
		}
		n, t := tsdb.ParseSeriesKey(kb)
		out = append(out, string(models.MakeKey(n, t)))
	})
	sort.Strings(out)
	return out, sh.SeriesN(), nil
}

func (b *vDualBed) MeasurementNames(i int, p *vDualPred) ([]string, error) {
	names, err := b.stores[i].MeasurementNames(context.Background(), nil, vDualDB, "", p.Expr())
	if err != nil {
		return nil, err
	}
	out := make([]string, 0, len(names))
	for _, n := range names {
		out = append(out, string(n))
	}
	sort.Strings(out)
	return out, nil
}

// TagKeys returns "m k" pairs.
func (b *vDualBed) TagKeys(i int, ids []uint64, cond string) ([]string, error) {
	var e influxql.Expr
	if cond != "" {
		e = influxql.MustParseExpr(cond)
	}
	tk, err := b.stores[i].TagKeys(context.Background(), nil, ids, e)
	if err != nil {
		return nil, err
	}
	set := map[string]bool{}
	for _, t := range tk {
		for _, k := range t.Keys {
			set[t.Measurement+" "+k] = true
		}
	}
	return vDualSorted(set), nil
}

// TagValues returns "m k v" triples.
func (b *vDualBed) TagValues(i int, ids []uint64, cond string) ([]string, error) {
	tv, err := b.stores[i].TagValues(context.Background(), nil, ids, influxql.MustParseExpr(cond))
	if err != nil {
		return nil, err
	}
	set := map[string]bool{}
	for _, t := range tv {
		for _, kv := range t.Values {
			set[t.Measurement+" "+kv.Key+" "+kv.Value] = true
		}
	}
	return vDualSorted(set), nil
}

// vDualDiff describes the difference of two sorted string sets ("" if equal).
func vDualDiff(got, want []string) string {
	g, w := map[string]bool{}, map[string]bool{}
	for _, s := range got {
		g[s] = true
	}
	for _, s := range want {
		w[s] = true
	}
	var extra, missing []string
	for _, s := range got {
		if !w[s] {
			extra = append(extra, s)
		}
	}
	for _, s := range want {
		if !g[s] {
			missing = append(missing, s)
		}
	}
	if len(extra) == 0 && len(missing) == 0 {
		if len(got) != len(want) {
			return fmt.Sprintf("duplicates: got %v want %v", got, want)
		}
		return ""
	}
	return fmt.Sprintf("unexpected=%v missing=%v", extra, missing)
}
