//go:build verif

package tsdb_test

// C14 - a series that lost all its points in ONE shard (time-bounded delete) while it lives on in another shard,
// and is then written to that shard again, is listed by that shard's index again - also under tag and regular
// expression predicates, after the tsi1 log file was compacted and after a restart. The big state machine forms
// this shape too rarely in its quick tier; here it is the skeleton of every case.

import (
	"fmt"
	"strings"
	"testing"
	"time"

	"github.com/influxdata/influxdb/models"
	"github.com/influxdata/influxql"
	"pgregory.net/rapid"
	"verifkit"
)

func TestVerifC14ReaddAfterShardOnlyDelete(t *testing.T) {
	st := verifkit.For("C14", "TestVerifC14ReaddAfterShardOnlyDelete",
		"dual bed (inmem + tsi1, two shards, drawn tsi1 log file size 1 B..1 MiB and partition count): 2..6 series of one measurement with tag a in {x,y,z} and a unique tag b are written to both shards; every point of shard 2's time span is deleted (the series live on in shard 1); a drawn subset is written to shard 2 again, optionally together with 0..200 filler series of another measurement (which push the log file over its size, so that it is compacted with the tombstone and the re-insertion in one file), optionally followed by a restart. Oracle, per index type and for shard 2 alone: the listing under no predicate, a = 'v', a =~ /^v$/ and a != 'v' contains every re-written series that matches (missing = violation) and nothing that was never written to shard 2; series dropped from shard 2 only and not re-written may linger in tsi1 (known finding tsi1-shard-lists-series-dropped-from-that-shard-only, tolerated and counted) and are listed by the database-wide inmem index anyway. non-trivial = at least one series re-written and one not; distinct = (series, subset, log size, filler, restart)")
	defer st.Flush()
	rapid.Check(t, func(rt *rapid.T) {
		cfg := vDualCfg{NShards: 2, LogSize: rapid.SampledFrom([]int{1, 256, 4096, 1 << 20}).Draw(rt, "logSize"), Partitions: rapid.SampledFrom([]uint64{1, 2, 8}).Draw(rt, "partitions"), CacheSize: rapid.SampledFrom([]int{0, 100}).Draw(rt, "cache")}
		b, err := vDualNewBed(cfg)
		if err != nil {
			rt.Fatalf("VERIF-INCONCLUSIVE harness: bed: %v", err)
		}
		defer b.Close()
		n := rapid.IntRange(2, 6).Draw(rt, "series")
		type ser struct{ a, key string }
		var all []ser
		mk := func(s ser, i int, ts int64) models.Point {
			p, err := models.NewPoint("m0", models.NewTags(map[string]string{"a": s.a, "b": fmt.Sprintf("s%d", i)}), models.Fields{"v": 1.0}, time.Unix(0, ts))
			if err != nil {
				rt.Fatal(err)
			}
			return p
		}
		var p1, p2 []models.Point
		for i := 0; i < n; i++ {
			s := ser{a: rapid.SampledFrom([]string{"x", "y", "z"}).Draw(rt, "a")}
			s.key = string(models.MakeKey([]byte("m0"), models.NewTags(map[string]string{"a": s.a, "b": fmt.Sprintf("s%d", i)})))
			all = append(all, s)
			p1 = append(p1, mk(s, i, 10))
			p2 = append(p2, mk(s, i, vDualShardSpan+10))
		}
		if err := b.Write(1, p1); err != nil {
			rt.Fatalf("%s write: %v", verifkit.Sig("write-error"), err)
		}
		if err := b.Write(2, p2); err != nil {
			rt.Fatalf("%s write: %v", verifkit.Sig("write-error"), err)
		}
		cond := influxql.MustParseExpr(fmt.Sprintf("time >= %d AND time <= %d", vDualShardSpan, 2*vDualShardSpan-1))
		if err, hung := b.DeleteSeries([]string{"m0"}, cond); hung {
			rt.Fatalf("%s DELETE did not return", verifkit.Sig("delete-range-hang"))
		} else if err != nil {
			rt.Fatalf("%s delete: %v", verifkit.Sig("delete-error"), err)
		}
		readd := map[string]bool{}
		var back []models.Point
		for i, s := range all {
			if rapid.Bool().Draw(rt, "rewrite") {
				readd[s.key] = true
				back = append(back, mk(s, i, vDualShardSpan+20))
			}
		}
		filler := rapid.SampledFrom([]int{0, 0, 40, 200}).Draw(rt, "filler")
		for i := 0; i < filler; i++ {
			p, _ := models.NewPoint("fill", models.NewTags(map[string]string{"f": fmt.Sprintf("%04d", i)}), models.Fields{"v": 1.0}, time.Unix(0, vDualShardSpan+30))
			back = append(back, p)
		}
		if len(back) > 0 {
			if err := b.Write(2, back); err != nil {
				rt.Fatalf("%s write: %v", verifkit.Sig("write-error"), err)
			}
		}
		restart := rapid.Bool().Draw(rt, "restart")
		if restart {
			if err := b.Reopen(); err != nil {
				rt.Fatalf("%s reopen: %v", verifkit.Sig("reopen-error"), err)
			}
		}
		ever := map[string]bool{}
		for _, s := range all {
			ever[s.key] = true
		}
		val := rapid.SampledFrom([]string{"x", "y", "z"}).Draw(rt, "predicateValue")
		preds := []*vDualPred{nil, {Op: "cmp", Key: "a", Cmp: "=", Val: val}, {Op: "cmp", Key: "a", Cmp: "=~", Val: "^" + val + "$"}, {Op: "cmp", Key: "a", Cmp: "!=", Val: val}}
		for _, p := range preds {
			for i, kind := range vDualKinds {
				got, err := b.SeriesByExpr(i, []uint64{2}, "m0", p)
				if err != nil {
					rt.Fatalf("%s %s: series of shard 2 under %q: %v", verifkit.Sig("listing-error"), kind, p.String(), err)
				}
				have := map[string]bool{}
				for _, k := range got {
					have[k] = true
					if !ever[k] {
						rt.Fatalf("%s %s lists %s for shard 2 under %q, which was never written there", verifkit.Sig("series-predicate-"+kind+"-unexpected"), kind, k, p.String())
					}
					if !readd[k] && kind == "tsi1" {
						// dropped from this shard only, not written again: may linger in the shard's tsi1 index (known
						// finding). The inmem index is database wide: it lists the series because shard 1 still holds it.
						st.Exclude(vC14SigGhost)
					}
				}
				for _, s := range all {
					match := p == nil || (p.Cmp == "!=" && s.a != val) || (p.Cmp != "!=" && s.a == val)
					if readd[s.key] && match && !have[s.key] {
						rt.Fatalf("%s %s: series %s was deleted from shard 2 by a time-bounded delete (it lives on in shard 1), written to shard 2 again and is missing from shard 2's listing under %q (log size %d, %d filler series, restart=%v); listed: %v",
							verifkit.Sig("series-predicate-"+kind+"-missing"), kind, s.key, p.String(), cfg.LogSize, filler, restart, got)
					}
				}
			}
		}
		var sub []string
		for _, s := range all {
			if readd[s.key] {
				sub = append(sub, "1")
			} else {
				sub = append(sub, "0")
			}
		}
		st.Case(len(readd) > 0 && len(readd) < n, fmt.Sprint(n, strings.Join(sub, ""), cfg.LogSize, filler, restart), fmt.Sprintf("logSize:%d", cfg.LogSize), fmt.Sprintf("filler:%d", filler), fmt.Sprintf("restart:%v", restart))
		if st.WantSample() {
			st.Sample(map[string]interface{}{"series": n, "rewritten": len(readd), "log_size": cfg.LogSize, "filler": filler, "restart": restart})
		} else {
			st.Sample(nil)
		}
	})
}
