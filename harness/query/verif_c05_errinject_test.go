//go:build verif

package query_test

// C05 at the level of the query engine: an input iterator (a shard, or the stream of a remote node) that
// fails part-way must make the statement fail; the statement never returns a result that silently lacks
// the rest of that input. Differential oracle: the same statement over the same inputs without the failure.

import (
	"context"
	"errors"
	"fmt"
	"reflect"
	"sort"
	"strings"
	"testing"

	"github.com/influxdata/influxdb/query"
	"github.com/influxdata/influxql"
	"pgregory.net/rapid"
	"verifkit"
)

var vErrInjected = errors.New("injected input failure")

type vPoint struct {
	T int64
	F float64
	I int64
	U uint64
	S string
	B bool
}

type vInput struct {
	Host string
	Pts  []vPoint // ascending time
}

type vItBase struct {
	pts    []vPoint
	tags   query.Tags
	i      int
	failAt int // Next fails once i == failAt (sticky); <0 never
	raw    byte
}

func (it *vItBase) Stats() query.IteratorStats { return query.IteratorStats{} }
func (it *vItBase) Close() error               { return nil }
func (it *vItBase) step() (*vPoint, error) {
	if it.failAt >= 0 && it.i >= it.failAt {
		return nil, vErrInjected
	}
	if it.i >= len(it.pts) {
		return nil, nil
	}
	p := &it.pts[it.i]
	it.i++
	return p, nil
}

func (it *vItBase) aux(p *vPoint) []interface{} {
	switch it.raw {
	case 'f':
		return []interface{}{p.F}
	case 'i':
		return []interface{}{p.I}
	case 'u':
		return []interface{}{p.U}
	case 's':
		return []interface{}{p.S}
	case 'b':
		return []interface{}{p.B}
	}
	return nil
}

type vFloatIt struct{ vItBase }

func (it *vFloatIt) Next() (*query.FloatPoint, error) {
	p, err := it.step()
	if p == nil {
		return nil, err
	}
	return &query.FloatPoint{Name: "cpu", Tags: it.tags, Time: p.T, Value: p.F, Aux: it.aux(p)}, nil
}

type vIntegerIt struct{ vItBase }

func (it *vIntegerIt) Next() (*query.IntegerPoint, error) {
	p, err := it.step()
	if p == nil {
		return nil, err
	}
	return &query.IntegerPoint{Name: "cpu", Tags: it.tags, Time: p.T, Value: p.I}, nil
}

type vUnsignedIt struct{ vItBase }

func (it *vUnsignedIt) Next() (*query.UnsignedPoint, error) {
	p, err := it.step()
	if p == nil {
		return nil, err
	}
	return &query.UnsignedPoint{Name: "cpu", Tags: it.tags, Time: p.T, Value: p.U}, nil
}

type vStringIt struct{ vItBase }

func (it *vStringIt) Next() (*query.StringPoint, error) {
	p, err := it.step()
	if p == nil {
		return nil, err
	}
	return &query.StringPoint{Name: "cpu", Tags: it.tags, Time: p.T, Value: p.S}, nil
}

type vBooleanIt struct{ vItBase }

func (it *vBooleanIt) Next() (*query.BooleanPoint, error) {
	p, err := it.step()
	if p == nil {
		return nil, err
	}
	return &query.BooleanPoint{Name: "cpu", Tags: it.tags, Time: p.T, Value: p.B}, nil
}

func vMkIterator(in vInput, typ byte, opt query.IteratorOptions, failAt int) query.Iterator {
	pts := make([]vPoint, 0, len(in.Pts))
	for _, p := range in.Pts {
		if p.T >= opt.StartTime && p.T <= opt.EndTime {
			pts = append(pts, p)
		}
	}
	if !opt.Ascending {
		for l, r := 0, len(pts)-1; l < r; l, r = l+1, r-1 {
			pts[l], pts[r] = pts[r], pts[l]
		}
	}
	// the tags of the points an engine returns are the subset asked for by the dimensions
	full := query.NewTags(map[string]string{"host": in.Host})
	base := vItBase{pts: pts, tags: full.Subset(opt.Dimensions), failAt: failAt}
	if opt.Expr == nil {
		base.raw = typ
		return &vFloatIt{base}
	}
	switch typ {
	case 'f':
		return &vFloatIt{base}
	case 'i':
		return &vIntegerIt{base}
	case 'u':
		return &vUnsignedIt{base}
	case 's':
		return &vStringIt{base}
	default:
		return &vBooleanIt{base}
	}
}

func vRun(stmtText string, inputs []vInput, typ byte, failInput, failAt int) (rows []query.Row, asked int, err error) {
	dt := map[byte]influxql.DataType{'f': influxql.Float, 'i': influxql.Integer, 'u': influxql.Unsigned, 's': influxql.String, 'b': influxql.Boolean}[typ]
	shardMapper := ShardMapper{
		MapShardsFn: func(sources influxql.Sources, _ influxql.TimeRange) query.ShardGroup {
			return &ShardGroup{
				Fields:     map[string]influxql.DataType{"value": dt},
				Dimensions: []string{"host"},
				CreateIteratorFn: func(ctx context.Context, m *influxql.Measurement, opt query.IteratorOptions) (query.Iterator, error) {
					asked++
					// inputs are merged in the order an engine would deliver them: by series, then time
					order := make([]int, len(inputs))
					for i := range order {
						order[i] = i
					}
					itrs := make([]query.Iterator, 0, len(inputs))
					for _, i := range order {
						fa := -1
						if i == failInput {
							fa = failAt
						}
						var itr query.Iterator = vMkIterator(inputs[i], typ, opt, fa)
						if _, ok := opt.Expr.(*influxql.Call); ok {
							var err error
							if itr, err = query.NewCallIterator(itr, opt); err != nil {
								return nil, err
							}
						}
						itrs = append(itrs, itr)
					}
					return query.Iterators(itrs).Merge(opt)
				},
			}
		},
	}
	stmt, perr := influxql.ParseStatement(stmtText)
	if perr != nil {
		return nil, 0, fmt.Errorf("harness: parse %q: %v", stmtText, perr)
	}
	sel := stmt.(*influxql.SelectStatement)
	c, err := query.Compile(sel, query.CompileOptions{})
	if err != nil {
		return nil, asked, err
	}
	p, err := c.Prepare(&shardMapper, query.SelectOptions{})
	if err != nil {
		return nil, asked, err
	}
	cur, err := p.Select(context.Background())
	if err != nil {
		return nil, asked, err
	}
	rows, err = ReadCursor(cur)
	return rows, asked, err
}

func TestVerifC05QueryErrorInjection(t *testing.T) {
	stats := verifkit.For("C05", "TestVerifC05QueryErrorInjection",
		"query engine over generated inputs: 1..5 single-series inputs (as shards or remote streams deliver them; host A/B, 0..12 points each, a drawn field type) are merged exactly as a shard group merges them, under a statement drawn from a grammar (raw / 15 functions, time bounds, GROUP BY host and time(), fill, ORDER BY DESC, LIMIT/OFFSET/SLIMIT); the statement is run fault-free (R0) and again with one input failing after a drawn number of points. Oracle: the faulty run returns an error or exactly R0 (R0 only when the failure position was not needed). non-trivial = the fault-free run succeeds with a non-empty result and the failing input fails after at least one and before its last point; distinct = hash of (statement shape, type, inputs, fail position)")
	defer stats.Flush()
	rapid.Check(t, func(rt *rapid.T) {
		typ := rapid.SampledFrom([]byte("fffiiuusb")).Draw(rt, "type")
		n := rapid.IntRange(1, 5).Draw(rt, "inputs")
		inputs := make([]vInput, n)
		for i := range inputs {
			inputs[i].Host = rapid.SampledFrom([]string{"A", "A", "B"}).Draw(rt, "host")
			k := rapid.IntRange(0, 12).Draw(rt, "points")
			tcur := int64(rapid.IntRange(0, 30).Draw(rt, "t0")) * 1e9
			for j := 0; j < k; j++ {
				v := rapid.IntRange(-20, 20).Draw(rt, "v")
				u := v
				if u < 0 {
					u = -u
				}
				inputs[i].Pts = append(inputs[i].Pts, vPoint{T: tcur, F: float64(v) / 2, I: int64(v), U: uint64(u), S: fmt.Sprint("s", v), B: v%2 == 0})
				tcur += int64(rapid.IntRange(1, 15).Draw(rt, "dt")) * 1e9
			}
		}
		// statement
		var funcs []string
		switch typ {
		case 'f', 'i', 'u':
			funcs = []string{"", "", "count(value)", "sum(value)", "mean(value)", "min(value)", "max(value)", "first(value)", "last(value)", "median(value)", "spread(value)", "stddev(value)", "distinct(value)", "percentile(value, 50)", "top(value, 2)", "bottom(value, 2)", "mode(value)", "count(distinct(value))"}
		default:
			funcs = []string{"", "", "count(value)", "first(value)", "last(value)", "distinct(value)", "mode(value)"}
		}
		fn := rapid.SampledFrom(funcs).Draw(rt, "function")
		field := "value"
		if fn != "" {
			field = fn
		}
		var sb strings.Builder
		fmt.Fprintf(&sb, "SELECT %s FROM cpu", field)
		bounded := rapid.Bool().Draw(rt, "timeBounds")
		if bounded {
			lo := rapid.IntRange(0, 60).Draw(rt, "lo")
			hi := lo + rapid.IntRange(1, 150).Draw(rt, "span")
			fmt.Fprintf(&sb, " WHERE time >= %ds AND time < %ds", lo, hi)
		}
		var dims []string
		if rapid.Bool().Draw(rt, "byHost") {
			dims = append(dims, "host")
		}
		selector := strings.HasPrefix(fn, "top") || strings.HasPrefix(fn, "bottom") || strings.HasPrefix(fn, "distinct")
		if fn != "" && bounded && rapid.Bool().Draw(rt, "byTime") {
			dims = append(dims, fmt.Sprintf("time(%ds)", rapid.SampledFrom([]int{5, 10, 30}).Draw(rt, "interval")))
		}
		if len(dims) > 0 {
			fmt.Fprintf(&sb, " GROUP BY %s", strings.Join(dims, ", "))
			if strings.Contains(sb.String(), "time(") && !selector {
				switch rapid.IntRange(0, 3).Draw(rt, "fill") {
				case 1:
					sb.WriteString(" fill(none)")
				case 2:
					sb.WriteString(" fill(0)")
				case 3:
					sb.WriteString(" fill(previous)")
				}
			}
		}
		if rapid.IntRange(0, 3).Draw(rt, "desc") == 0 {
			sb.WriteString(" ORDER BY time DESC")
		}
		if rapid.IntRange(0, 2).Draw(rt, "limit") == 0 {
			fmt.Fprintf(&sb, " LIMIT %d", rapid.IntRange(1, 6).Draw(rt, "n"))
			if rapid.Bool().Draw(rt, "offset") {
				fmt.Fprintf(&sb, " OFFSET %d", rapid.IntRange(1, 4).Draw(rt, "m"))
			}
		}
		if len(dims) > 0 && dims[0] == "host" && rapid.IntRange(0, 4).Draw(rt, "slimit") == 0 {
			sb.WriteString(" SLIMIT 1")
		}
		q := sb.String()
		failInput := rapid.IntRange(0, n-1).Draw(rt, "failInput")
		failAt := rapid.IntRange(0, len(inputs[failInput].Pts)).Draw(rt, "failAfter")

		r0, asked, err0 := vRun(q, inputs, typ, -1, -1)
		if err0 != nil && strings.HasPrefix(err0.Error(), "harness:") {
			rt.Fatalf("%v", err0)
		}
		outcome := "fault-free-error"
		nontrivial := false
		if err0 == nil {
			r1, _, err1 := vRun(q, inputs, typ, failInput, failAt)
			switch {
			case err1 != nil:
				outcome = "error"
			case reflect.DeepEqual(r0, r1):
				outcome = "equal"
			default:
				rt.Fatalf("%s %q over %d inputs of type %c: input %d (host %s, %d points) fails after %d points, yet the statement returns a result and no error, and the result differs from the fault-free one\n--- with the failing input: %v\n--- fault-free: %v\ninputs: %+v",
					verifkit.Sig("input-error-silently-dropped"), q, n, typ, failInput, inputs[failInput].Host, len(inputs[failInput].Pts), failAt, r1, r0, inputs)
			}
			nontrivial = len(r0) > 0 && asked > 0 && failAt >= 1 && failAt < len(inputs[failInput].Pts)
		}
		shape := fn
		if shape == "" {
			shape = "raw"
		}
		if i := strings.Index(shape, "("); i > 0 {
			shape = shape[:i]
		}
		sort.Strings(dims)
		stats.Case(nontrivial, fmt.Sprint(q, string(typ), inputs, failInput, failAt), "fn:"+shape, "type:"+string(typ), "outcome:"+outcome, fmt.Sprintf("inputs:%d", n), fmt.Sprintf("byTime:%v", strings.Contains(q, "time(")), fmt.Sprintf("desc:%v", strings.Contains(q, "DESC")), fmt.Sprintf("limit:%v", strings.Contains(q, "LIMIT")))
		if stats.WantSample() {
			stats.Sample(map[string]interface{}{"statement": q, "type": string(typ), "inputs": n, "fail_input": failInput, "fail_after_points": failAt, "outcome": outcome})
		} else {
			stats.Sample(nil)
		}
	})
}
