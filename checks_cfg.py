"""Registry of checks: one JSON file per property under checks.d/ (see HARNESS_GUIDE.md)."""
import glob
import json
import os

_D = os.path.join(os.path.dirname(os.path.abspath(__file__)), "checks.d")
CHECKS = {}
for _p in sorted(glob.glob(os.path.join(_D, "C*.json"))):
    _c = json.load(open(_p))
    CHECKS[_c["id"]] = _c
